"""C01 — ASH link end to end: the real AshProtocol against a specification-conforming simulated NCP
(harness/ncpsim.py) over two FIFO channels that drop, corrupt, duplicate and stall frames, on the
deterministic virtual-time loop.  Oracle: exactly-once, in-order delivery in both directions."""
import asyncio
import itertools
import logging

from harness import ashlib, ncpsim, vloop
from harness.ashlib import hx

FAULTS = "vxcds"  # deliver, drop, corrupt, duplicate, stall (the sender's timer fires first)


class World:
    def __init__(self, window, rng, reactive=0.0):
        import bellows.ash as ash

        self.reactive = reactive

        self.ash = ash
        self.rng = rng
        self.loop = vloop.VLoop().install()
        ash.time.monotonic = self.loop.time
        self.log = []
        self.h2n = []  # wire frames written by the host, not yet delivered
        self.n2h = []
        self.host_up = []
        self.resets = []
        world = self

        class Tr:
            def write(self, data):
                world.h2n.append(bytes(data))

            def is_closing(self):
                return False

        class Up:
            def data_received(self, data):
                world.host_up.append(bytes(data))
                if getattr(world, "raising", False) and len(data) > 3 and data[3] % 3 == 0:
                    # an upper layer with a bug for this particular frame: it was handed the frame (once), what becomes of its
                    # exception is not the link's business
                    raise RuntimeError("the upper layer raised")
                # an upper layer that answers what it receives: a new send issued from inside the up-call, or by whatever the
                # up-call woke (it runs in the next loop iteration, next to the sender task the same read completed)
                if world.reactive and world.rng.random() < world.reactive:
                    if world.rng.random() < 0.5:
                        world._reactive_submit()
                    else:
                        world.loop.call_soon(world._reactive_submit)

            def reset_received(self, code):
                world.resets.append(int(code))

            def error_received(self, code):
                world.resets.append(int(code))

            def connection_made(self, p):
                pass

        self.p = ash.AshProtocol(Up())
        self.p._transport = Tr()
        self.ncp = ncpsim.Ncp(window)
        self.host_sub = []  # (payload, task)
        self.results = {}
        self.labels = []
        self.npay = 0
        self.late = []  # [direction, deliveries still to wait, wire frame]: copies the line delivers late

    def close(self):
        self.loop.shutdown()

    async def _caller(self, payload):
        ash = self.ash
        try:
            await self.p.send_data(payload)
            self.results[payload] = "ok"
        except asyncio.CancelledError:
            self.results[payload] = "cancelled"
        except (ash.AshException, asyncio.TimeoutError):
            self.results[payload] = "failed"
        except Exception as e:
            self.results[payload] = f"!{type(e).__name__}"

    def _drain_ncp(self):
        self.n2h += self.ncp.out
        self.ncp.out = []

    def host_submit(self):
        self.npay += 1
        payload = bytes([0xA0, self.npay & 0xFF, self.npay >> 8, self.rng.getrandbits(8)])
        t = self.loop.create_task(self._caller(payload))
        self.host_sub.append((payload, t))
        self.loop.settle()
        self.labels.append("hs")

    def _reactive_submit(self):
        self.npay += 1
        payload = bytes([0xA0, self.npay & 0xFF, self.npay >> 8, self.rng.getrandbits(8)])
        t = self.loop.create_task(self._caller(payload))
        self.host_sub.append((payload, t))
        self.labels.append("hr")

    def ncp_submit(self):
        self.npay += 1
        payload = bytes([0xB0, self.npay & 0xFF, self.npay >> 8, self.rng.getrandbits(8)])
        if self.ncp.sub and self.rng.random() < 0.3:
            payload = self.ncp.sub[-1]   # the NCP has the same thing to say twice in a row (two identical callbacks): two frames
        self.ncp.submit(payload)
        self._drain_ncp()
        self.labels.append("ns")

    def host_cancel(self):
        live = [t for _, t in self.host_sub if not t.done()]
        if live:
            self.rng.choice(live).cancel()
            self.loop.settle()
            self.labels.append("hc")

    def host_timeout(self):
        if self.loop.fire_next_timer():
            self.labels.append("ht")
            return True
        return False

    def ncp_timeout(self):
        if self.ncp.unacked():
            self.ncp.retransmit()
            self._drain_ncp()
            self.labels.append("nt")
            return True
        return False

    @staticmethod
    def _corrupt(rng, w):
        b = bytearray(w)
        i = rng.randrange(max(len(b) - 1, 1))
        b[i] ^= 1 << rng.randrange(8)
        if b[i] in (0x7E, 0x1A, 0x18, 0x11, 0x13):  # keep it one (bad) frame: do not create a boundary byte
            b[i] = 0x55
        return bytes(b)

    def deliver(self, direction, fault="v"):
        ch = self.h2n if direction == "h2n" else self.n2h
        if not ch:
            return False
        self.labels.append(f"{direction}:{fault}")
        if fault == "s":  # stall: the frame sits in the line while the sender's timer expires
            if direction == "h2n":
                if not self.host_timeout():
                    pass
            else:
                self.ncp_timeout()
            return True
        if fault == "r" and direction == "n2h" and self.loop.next_timer() is not None:
            # the frame was held up on the line exactly until the host's next deadline: the read and the timer land in ONE loop
            # iteration, the read first
            w = ch.pop(0)
            self.loop.fire_next_timer([(self.p.data_received, w)])
            self.loop.settle()
            return True
        w = ch.pop(0)
        if fault == "x":
            return True
        if fault == "j" and ch:  # two frames arrive in one read
            w = w + ch.pop(0)
        copies = [w, w] if fault == "d" else [self._corrupt(self.rng, w) if fault == "c" else w]
        if fault == "l":  # duplicate whose copy is held back by the line for the next 2..4 frames of that direction
            self.late.append([direction, self.rng.randint(2, 4), w])
        else:
            for e in self.late:
                if e[0] == direction:
                    e[1] -= 1
            due = [e for e in self.late if e[0] == direction and e[1] <= 0]
            self.late = [e for e in self.late if e not in due]
            copies += [e[2] for e in due]
        for c in copies:
            if direction == "h2n":
                self.ncp.receive(c)
                self._drain_ncp()
            else:
                self.loop.iterate([(self.p.data_received, c)])
                self.loop.settle()
        return True

    def quiesce(self, limit=400):
        """fair completion: deliver everything without faults, let timers fire, until nothing moves"""
        n = 0
        while n < limit:
            n += 1
            if self.h2n:
                self.deliver("h2n")
            elif self.n2h:
                self.deliver("n2h")
            elif self.ncp.unacked() and self.p._ncp_state == self.ash.NcpState.CONNECTED:
                self.ncp_timeout()
            elif self.loop.next_timer() is not None:
                self.host_timeout()
            else:
                break
        self.loop.settle()


def oracle(w):
    hs = [p for p, _ in w.host_sub]
    ns = w.ncp.sub

    def subseq(delivered, submitted, who):
        pos = -1
        for d in delivered:
            if d not in submitted:
                return f"{who} received a payload {hx(d)} that was never submitted"
            i = submitted.index(d)
            if i <= pos:
                return f"{who} received {hx(d)} {'twice' if delivered.count(d) > 1 else 'out of order'} (deliveries {[hx(x) for x in delivered]})"
            pos = i
        return None

    bad = subseq(w.ncp.up, hs, "the NCP's upper layer")
    if bad:
        return bad
    # NCP -> host: exactly once and in order means the host's upper layer has seen a prefix of what the NCP submitted
    # (payloads may repeat: they are told apart by position)
    if list(w.host_up) != list(ns[: len(w.host_up)]):
        k = next((i for i, (a, b) in enumerate(zip(w.host_up, ns)) if a != b), min(len(w.host_up), len(ns)))
        return (f"the host's upper layer received {[hx(x) for x in w.host_up[max(0, k - 2):k + 2]]} at position {k}, the NCP submitted "
                f"{[hx(x) for x in ns[max(0, k - 2):k + 2]]}: not each frame once in order")
    if len(w.host_up) < w.ncp.base:  # the NCP's sends that completed (were acknowledged by the host)
        i = len(w.host_up)
        return (f"the host acknowledged NCP frame {i} ({hx(ns[i])}) but handed it to its upper layer 0 times")
    for p, t in w.host_sub:
        r = w.results.get(p)
        if r is not None and r.startswith("!"):
            return f"send_data({hx(p)}) ended with unexpected {r}"
        if r == "ok" and w.ncp.up.count(p) != 1:
            return f"send_data({hx(p)}) reported success but the NCP's upper layer received it {w.ncp.up.count(p)} times"
        if w.ncp.up.count(p) > 1:
            return f"payload {hx(p)} delivered {w.ncp.up.count(p)} times"
    return None


def scenario(rng, window, plan, nh, nn, extra, focus="mix"):
    """plan: fault letters applied to the first wire frames (alternating pick of the non-empty channel,
    host->NCP first); extra: random tail of labels"""
    w = World(window, rng, reactive=0.6 if focus == "react" else 0.0)
    w.raising = focus == "raise"
    if w.raising:
        w.loop.set_exception_handler(lambda loop, context: None)   # (asyncio would only log it)
    try:
        if focus == "stale":
            # the host's DATA frame needs a retransmission; by then the host has accepted (and acknowledged) so many NCP frames that
            # the acknowledgement number of its *first* transmission, read modulo 8, would cover the NCP's frames now in flight -
            # which the line loses.  A retransmission carries the acknowledgement number of the moment it is sent.
            w.host_submit()
            w.deliver("h2n", "x")
            for _ in range(8 - window + (nn % 2) * 8):
                w.ncp_submit()
                for _ in range(4):
                    if w.n2h:
                        w.deliver("n2h", "v")
                    if w.h2n:
                        w.deliver("h2n", "v")
            for _ in range(window):
                w.ncp_submit()
            while w.n2h:
                w.deliver("n2h", "x")
            w.host_timeout()
            while w.h2n:
                w.deliver("h2n", "v")
            nh = nn = 0
        for _ in range(nh):
            w.host_submit()
        for _ in range(nn):
            w.ncp_submit()
        for f in plan:
            if focus in ("h2n", "n2h"):
                other = "h2n" if focus == "n2h" else "n2h"
                for _ in range(50):  # the other direction is fault-free and prompt
                    if not (w.h2n if other == "h2n" else w.n2h):
                        break
                    w.deliver(other, "v")
                ch = w.n2h if focus == "n2h" else w.h2n
                if not ch:
                    # nothing in flight: let the sender's timer fire once
                    if not (w.ncp_timeout() if focus == "n2h" else w.host_timeout()):
                        break
                    continue
                w.deliver(focus, f)
            elif focus == "race":
                # host frames get the planned fault; whatever the NCP answers is held until the host's deadline
                if w.h2n:
                    w.deliver("h2n", f if f != "r" else "c")
                if w.n2h:
                    w.deliver("n2h", "r" if rng.random() < 0.7 else "v")
            elif w.h2n and (not w.n2h or rng.random() < 0.5):
                w.deliver("h2n", f)
            elif w.n2h:
                w.deliver("n2h", f)
            else:
                break
        for _ in range(extra):
            a = rng.random()
            if a < 0.12:
                w.host_submit()
            elif a < 0.24:
                w.ncp_submit()
            elif a < 0.28:
                w.host_cancel()
            elif a < 0.36:
                w.host_timeout()
            elif a < 0.42:
                w.ncp_timeout()
            else:
                d = "h2n" if (w.h2n and (not w.n2h or rng.random() < 0.5)) else "n2h"
                w.deliver(d, rng.choice("vvvvvvxcdsll" if focus == "late" else "vvvvjjjjxcs" if focus == "react" else "vvvvvvvvs" if focus == "raise" else "vvvvvvxcdsrr"))
        w.quiesce()
        failed_link = w.p._ncp_state != w.ash.NcpState.CONNECTED
        return w, oracle(w), failed_link
    finally:
        w.close()


def cases(ctx):
    rng = ctx.rng
    cs = []
    depth = ctx.n(5, 7)
    for window in (1, 2, 3):
        for plan in itertools.product(FAULTS, repeat=depth):
            cs.append((window, "".join(plan), 2, 2, 0, "mix"))
    # one direction at a time, the other fault-free: every fault assignment to the first frames of a burst
    for window in (1, 2, 3):
        for plan in itertools.product(FAULTS, repeat=depth + 1):
            cs.append((window, "".join(plan), 0, 3, 0, "n2h"))
    for plan in itertools.product(FAULTS, repeat=depth + 1):
        cs.append((1, "".join(plan), 3, 0, 0, "h2n"))
    for _ in range(ctx.n(400, 6000)):
        cs.append((rng.choice([1, 2, 3]), "", rng.randint(0, 3), rng.randint(0, 3), rng.randint(20, 120), "mix"))
    # corrupted host frames whose NAK (or a late ACK) reaches the host in the very iteration its ACK timer fires
    for _ in range(ctx.n(500, 5000)):
        cs.append((rng.choice([1, 2, 3]), "".join(rng.choice("cccvxr") for _ in range(3)), rng.randint(1, 3), rng.randint(0, 2), rng.randint(10, 60), "race"))
    # an upper layer that sends in reaction to what it receives, and reads that carry two frames (an ACK and a DATA frame together)
    for _ in range(ctx.n(600, 6000)):
        cs.append((rng.choice([1, 2, 3]), "", rng.randint(2, 4), rng.randint(1, 3), rng.randint(20, 80), "react"))
    # an upper layer that raises for some of the frames it is handed (no line faults needed): each frame still arrives once
    for _ in range(ctx.n(60, 600)):
        cs.append((rng.choice([1, 2, 3]), "", rng.randint(0, 2), rng.randint(2, 4), rng.randint(10, 60), "raise"))
    # a retransmission long after the first transmission: the acknowledgement number must be the current one
    for window in (1, 2, 3):
        for k in range(ctx.n(4, 12)):
            cs.append((window, "", 0, k % 2, rng.randint(0, 30), "stale"))
    # beyond the FIFO channels of the theorem (oracle only): a duplicate whose copy arrives 2..4 frames late
    for _ in range(ctx.n(400, 6000)):
        cs.append((rng.choice([1, 2, 3]), "", rng.randint(0, 3), rng.randint(0, 3), rng.randint(20, 120), "late"))
    return cs


def run(ctx):
    logging.disable(logging.CRITICAL)
    nontriv = 0
    complete = 0
    for i, (window, plan, nh, nn, extra, focus) in enumerate(cases(ctx)):
        seed = ctx.rng.getrandbits(32)
        import random

        w, bad, failed_link = scenario(random.Random(seed), window, plan, nh, nn, extra, focus)
        ctx.cov["evaluations"] += 1
        ctx.count(f"focus:{focus}")
        faults = sum(1 for l in w.labels if l.endswith((":x", ":c", ":d", ":s")) or l in ("ht", "nt"))
        if faults and (w.ncp.up or w.host_up):
            nontriv += 1
        ctx.count(f"window:{window}")
        for l in w.labels:
            ctx.count("label:" + l)
        if failed_link:
            ctx.count("runs_ending_with_failed_link")
        elif len(w.ncp.up) == len(w.host_sub) - sum(1 for p, _ in w.host_sub if w.results.get(p) == "cancelled" and p not in w.ncp.up) and len(w.host_up) == len(w.ncp.sub):
            complete += 1
        if bad:
            ctx.violation(bad, {"kind": "link"}, {"window": window, "plan": plan, "nh": nh, "nn": nn, "extra": extra, "seed": seed, "focus": focus, "labels": w.labels})
        if i % 700 == 3:
            ctx.sample({"window": window, "plan": plan, "labels": w.labels[:30], "ncp_up": [hx(x) for x in w.ncp.up][:6], "host_up": [hx(x) for x in w.host_up][:6], "results": {hx(k): v for k, v in list(w.results.items())[:6]}})
    ctx.cov["distinct_nontrivial"] = nontriv
    ctx.count("runs_fully_delivered", complete)
    ctx.cov["rule"] = (f"NCP windows 1..3 x every assignment of {{deliver, drop, corrupt, duplicate, stall}} to the first {ctx.n(5, 7)} wire frames of a 2+2-message exchange, and to the first {ctx.n(5, 7) + 1} frames of a 3-message burst in one direction with the other direction fault-free (exhaustive), then fair completion; "
                       "the same number of random runs in which a duplicate's copy is delivered 2..4 frames late (outside the FIFO channels of the theorem; oracle only); random runs of 20..120 labels (submissions on both sides, caller cancellation, host/NCP timeouts, faulty deliveries) with up to 3+3 initial messages, frame numbers wrapping; "
                       "non-trivial = at least one fault and at least one delivery; schedules are seeded, so distinct by construction")
    ctx.exhaustive = True


search = run


def replay(ctx, obj):
    import random

    logging.disable(logging.CRITICAL)
    r = obj["replay"]
    w, bad, _ = scenario(random.Random(r["seed"]), r["window"], r["plan"], r["nh"], r["nn"], r["extra"], r.get("focus", "mix"))
    print(f"replay window={r['window']} plan={r['plan']!r} labels={w.labels}: {'FAILS: ' + bad if bad else 'ok'}")
    if bad:
        print(f"VIOLATION property={ctx.pid} replay=replay")
    return 1 if bad else 0
