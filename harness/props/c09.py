"""C09 — bring-up: the real EZSP + Gateway + AshProtocol against the byte-level simulated NCP of every
protocol version; oracle on the NCP's frame log; correspondence with the Lean negotiation model."""
import logging

from harness import fullstack
from harness.ashlib import hx

RST = bytes.fromhex("1ac038bc7e")


def scenario(n, path, rstack, drops, again):
    """rstack: None | 'early' | 'late'; drops: (rx, tx) frames the NCP loses; again: second reset afterwards"""
    w = fullstack.World(n, path=path)
    w.ncp.drop_next_rx, w.ncp.drop_next_tx = drops
    out = {}
    try:
        async def go():
            import asyncio

            await w.ezsp.connect(use_thread=False)
            if rstack == "dup":
                w.ncp.dup_rstack = True   # every RSTACK arrives twice, both copies in one read
            if isinstance(rstack, str) and rstack.startswith("lose"):
                # the line loses the first k frames the host sends after the reset handshake: ASH retransmits (1.6 s, 3.2 s, ...),
                # well inside the command timeout for k <= 3 - bring-up completes all the same
                w.ncp.drop_rx_after_reset = int(rstack[4:])
            if isinstance(rstack, str) and rstack.startswith("ncplose"):
                # the line loses the first k frames the NCP sends after its RSTACK (the answer to the first version query): the host
                # repeats its request, the NCP retransmits the answer marked reTx - bring-up completes all the same
                w.ncp.drop_tx_after_reset = int(rstack[7:])
            if rstack == "split":
                # a socket NCP that is still starting (deaf to the RST): its spontaneous start-up RSTACK is late and arrives in two
                # TCP segments, the first just before the host gives up waiting and sends its RST, the second just after
                k = __import__("harness.ashlib", fromlist=["x"]).spec_wire("K", code=0x0B)
                w.ncp.boot_delay = 100.0
                w.loop.call_later(0.9, lambda: (w.ncp.out.append(k[:3]), w.pump()))

                def _rest():
                    w.ncp.booting = False
                    w.ncp.boot_gen += 1        # (its own deferred announcement is this very frame)
                    w.ncp.boot_delay = 0.0     # it is up now: later resets are answered at once
                    w.ncp.out.append(k[3:])
                    w.pump()

                w.loop.call_later(1.2, _rest)
            if rstack == "early":
                w.ncp.boot_delay = 0.4   # (were the host to reset an NCP that has just announced itself, the NCP would be deaf for a while)
                w.ncp.out.append(__import__("harness.ashlib", fromlist=["x"]).spec_wire("K", code=0x0B))
                w.pump()
            elif rstack == "crossing":
                # the NCP is still booting when the port opens: its spontaneous power-on RSTACK crosses the host's RST on the
                # wire (it arrives while the host's reset request is pending), the acknowledgement of the RST follows
                w.ncp.boot_delay = 0.4
                w.loop.call_later(1.1 if not path.startswith("/dev") else 0.1,
                                  lambda: (w.ncp.out.append(__import__("harness.ashlib", fromlist=["x"]).spec_wire("K", code=0x02)), w.pump()))
            elif rstack == "late":
                w.loop.call_later(1.5, lambda: (w.ncp.out.append(__import__("harness.ashlib", fromlist=["x"]).spec_wire("K", code=0x0B)), w.pump()))
            if again in ("retry", "linkfail"):
                # the acknowledgement of the very first reset is lost: that bring-up fails; the caller tries again on the same object
                # ("linkfail": the handshake works, then the line swallows every transmission of the first query - the host itself
                # gives the link up after its last retransmission; the next bring-up starts with a reset handshake like any other)
                if again == "retry":
                    w.ncp.drop_next_tx = 1
                else:
                    w.ncp.drop_rx_after_reset = 5   # exactly the five transmissions ASH makes
                try:
                    await w.ezsp.startup_reset()
                    out["first_try"] = "completed"
                except BaseException as e:  # noqa: BLE001
                    out["first_try"] = type(e).__name__
                out["w_retry"] = len([1 for d, b in w.wire_log if d == "h2n"])
                out["n_retry"] = len(w.ncp.rx_frames)
                if again == "linkfail":
                    # (EZSP is still marked running - nobody was attached to be told of the failure -, so the caller asks for the
                    # reset explicitly, as the application's recovery does)
                    await w.ezsp.reset()
            await w.ezsp.startup_reset()
            out["ev1"] = w.ezsp.ezsp_version
            out["hv1"] = w.ezsp._protocol.VERSION
            out["n1"] = len(w.ncp.rx_frames)
            await w.ezsp.write_config({})
            out["cfg"] = True
            if again in ("retry", "linkfail"):
                await w.ezsp.getEui64()
                return True
            if isinstance(again, str) and again.startswith("crossing"):
                # a later reset on a busy link: a callback the NCP sent just before it saw the RST is still on the wire and reaches
                # the host after the RST went out and before the RSTACK; the NCP's frame counter stands at k
                k = int(again[-1])
                for _ in range(16):
                    if w.ncp.tx_seq == k:
                        break
                    await w.ezsp.getEui64()
                held = []
                w.ncp.callback("stackStatusHandler", status=0x90)
                held, w.ncp.out[:] = list(w.ncp.out), []
                w.ncp.boot_delay = 0.4
                w.loop.call_later(0.05, lambda: (w.ncp.out.__setitem__(slice(0, 0), held), w.pump()))
            if again:
                if rstack == "dup":
                    # by the time of a later reset the application has registered its callback with EZSP (as ControllerApplication does
                    # after start-up): the duplicated acknowledgement is still just a duplicate
                    out["app_requests"] = []
                    w.ezsp.add_callback(lambda name, args: out["app_requests"].append(name) if name.startswith("_") else None)
                out["n2"] = len(w.ncp.rx_frames)
                out["w2"] = len([1 for d, b in w.wire_log if d == "h2n"])
                if again == "lost":
                    # the acknowledgement of a reset is lost: that reset fails (times out); the next one must work
                    w.ncp.drop_next_tx = 1
                    try:
                        await w.ezsp.reset()
                        out["lost_reset"] = "completed"
                    except BaseException as e:  # noqa: BLE001
                        out["lost_reset"] = type(e).__name__
                    out["n2"] = len(w.ncp.rx_frames)
                    out["w2"] = len([1 for d, b in w.wire_log if d == "h2n"])
                if again == "lost-retry":
                    # as "lost", but the caller simply tries startup_reset() again without stopping EZSP first
                    w.ncp.drop_next_tx = 1
                    try:
                        await w.ezsp.reset()
                        out["lost_reset"] = "completed"
                    except BaseException as e:  # noqa: BLE001
                        out["lost_reset"] = type(e).__name__
                    out["n2"] = len(w.ncp.rx_frames)
                    out["w2"] = len([1 for d, b in w.wire_log if d == "h2n"])
                    await w.ezsp.startup_reset()
                    out["ev2"] = w.ezsp.ezsp_version
                    out["hv2"] = w.ezsp._protocol.VERSION
                    await w.ezsp.write_config({})
                    out["ev_after_reset"] = out["hv_after_reset"] = 4
                elif again in ("startup", "lost"):
                    # the way ControllerApplication._reset does it
                    w.ezsp.stop_ezsp()
                    await w.ezsp.startup_reset()
                    out["ev2"] = w.ezsp.ezsp_version
                    out["hv2"] = w.ezsp._protocol.VERSION
                    await w.ezsp.write_config({})
                    out["ev_after_reset"] = out["hv_after_reset"] = 4  # not observable in between on this path
                else:
                    await w.ezsp.reset()
                    out["ev_after_reset"] = w.ezsp.ezsp_version
                    out["hv_after_reset"] = w.ezsp._protocol.VERSION
                    await w.ezsp.version()
                    out["ev2"] = w.ezsp.ezsp_version
                    out["hv2"] = w.ezsp._protocol.VERSION
                await w.ezsp.getEui64()
            return True

        res = w.run(go())
        out["result"] = res[0] if res[0] != "raised" else f"raised:{type(res[1]).__name__}:{res[1]}"
        out["frames"] = [f["raw"] for f in w.ncp.rx_frames]
        out["misframed"] = list(w.ncp.misframed)
        out["first_write"] = next((b for d, b in w.wire_log if d == "h2n"), b"")
        out["wire_h2n"] = [b for d, b in w.wire_log if d == "h2n"]
    finally:
        w.close()
    return out


def native_query(n, seq):
    if n < 5:
        return bytes([seq, 0, 0, n])
    if n < 8:
        return bytes([seq, 0, 0xFF, 0, 0, n])
    return bytes([seq, 0, 1, 0, 0, n])


def oracle(n, path, rstack, drops, again, o):
    faults = drops != (0, 0)
    if again == "linkfail" and o["result"] != "ok":
        return (f"after a bring-up that failed because the link gave up ({o.get('first_try')}), a new bring-up on the same object - reset handshake included - "
                f"did not complete: {o['result']}")
    if again in ("retry", "linkfail") and o["result"] == "ok":
        if o.get("first_try") == "completed":
            return None if o["ev1"] == n else f"negotiated protocol version {o['ev1']}, the NCP reports {n}"
        if RST not in b"".join(o["wire_h2n"][o["w_retry"]:o["w_retry"] + 2]):
            return (f"bring-up retried after a failed reset handshake ({o.get('first_try')}) did not perform the handshake again: first writes of the retry "
                    f"{[hx(b) for b in o['wire_h2n'][o['w_retry']:o['w_retry'] + 2]]}")
        if o["ev1"] != n or o["hv1"] != min(n, 14):
            return f"bring-up retried after a failed reset handshake negotiated {o['ev1']}/{o['hv1']}, the NCP reports {n}"
        return None
    if o["result"] != "ok":
        if faults and o["result"].startswith("raised:") and not o["misframed"]:
            # under link faults a clean failure is acceptable; mis-framed requests are not
            return None
        return f"bring-up against an NCP of protocol version {n} did not complete: {o['result']} (frames {o['frames'][:4]})"
    if o["misframed"]:
        return f"NCP v{n} received frames it cannot parse in its current format: {o['misframed'][:3]}"
    fr = [bytes.fromhex(x) for x in o["frames"]]
    if path.startswith("/dev") or rstack not in ("early",):  # (a spontaneous start-up reset seen on a TCP path replaces the host's own)
        if RST not in b"".join(o["wire_h2n"][:2]):
            return f"the ASH reset handshake was not performed first (first writes {[hx(b) for b in o['wire_h2n'][:2]]})"
    if not fr or fr[0][1:] != bytes([0, 0, 4]):
        return f"first version query is not in the legacy format [seq, 00, 00, 04]: {o['frames'][:1]}"
    if o["ev1"] != n:
        return f"negotiated protocol version {o['ev1']}, the NCP reports {n}"
    if o["hv1"] != min(n, 14):
        return f"handler tables of version {o['hv1']} in use for an NCP of version {n}, expected {min(n, 14)}"
    if n != 4:
        if len(fr) < 2 or fr[1][1:] != native_query(n, 0)[1:]:
            return f"second version query in the format of version {n} missing or wrong: {o['frames'][1:2]}"
    elif len(fr) >= 2 and fr[1][2:3] == b"\x00" and len(fr[1]) == 4 and fr[1][3] == 4 and fr[1][1] == 0:
        return "a second version query was sent although the versions agree"
    if again:
        k = o["n2"]
        if RST not in b"".join(o["wire_h2n"][o["w2"]:o["w2"] + 2]):
            return (f"a later reset ({again}) did not perform the ASH reset handshake: first writes after it was requested "
                    f"{[hx(b) for b in o['wire_h2n'][o['w2']:o['w2'] + 2]]}")
        if o["ev_after_reset"] != 4 or o["hv_after_reset"] != 4:
            return f"after a later reset the handler did not fall back to the legacy format (version {o['ev_after_reset']}/{o['hv_after_reset']})"
        if len(fr) <= k or fr[k][1:] != bytes([0, 0, 4]):
            return f"after a later reset the first version query is not in the legacy format: {o['frames'][k:k+1]}"
        if o["ev2"] != n or o["hv2"] != min(n, 14):
            return f"renegotiation after reset gave version {o['ev2']}/{o['hv2']}"
    return None


def cases(ctx):
    cs = []
    versions = list(range(4, 15)) + [15, 16, 255]
    for n in versions:
        cs.append((n, "/dev/ttyUSB0", None, (0, 0), True))
        cs.append((n, "socket://127.0.0.1:6638", "early", (0, 0), True))
        cs.append((n, "socket://127.0.0.1:6638", "late", (0, 0), False))
        cs.append((n, "socket://127.0.0.1:6638", None, (0, 0), False))
    for n in versions:
        # URL schemes are case-insensitive; a power-on RSTACK may cross the host's RST
        cs.append((n, "Socket://127.0.0.1:6638", "early", (0, 0), n % 2 == 0))
        cs.append((n, "SOCKET://127.0.0.1:6638", None, (0, 0), False))
        cs.append((n, "/dev/ttyUSB0", "crossing", (0, 0), n % 2 == 1))
        cs.append((n, "socket://127.0.0.1:6638", "crossing", (0, 0), False))
    for n in versions:
        for path, rstack in (("/dev/ttyUSB0", None), ("socket://127.0.0.1:6638", "early"), ("socket://127.0.0.1:6638", None)):
            if n in (4, 7, 8, 13, 14, 15) or ctx.tier == "thorough":
                cs.append((n, path, rstack, (0, 0), "startup"))
                cs.append((n, path, rstack, (0, 0), "lost"))
    for n in versions:
        if n in (4, 7, 8, 13, 14, 15) or ctx.tier == "thorough":
            for k in (1, 2, 3):
                cs.append((n, "/dev/ttyUSB0", f"lose{k}", (0, 0), False))
                if k <= 2:
                    cs.append((n, "/dev/ttyUSB0", f"ncplose{k}", (0, 0), k == 1 and n % 2 == 0))
                cs.append((n, "socket://127.0.0.1:6638", f"lose{k}", (0, 0), False))
            cs.append((n, "socket://127.0.0.1:6638", "split", (0, 0), n % 2 == 0))
    for n in versions:
        # the line duplicates the reset acknowledgement: both copies arrive in one read (first bring-up and a later reset)
        cs.append((n, "/dev/ttyUSB0", "dup", (0, 0), n % 2 == 0))
        cs.append((n, "socket://127.0.0.1:6638", "dup", (0, 0), False))
    for n in versions:
        # a failed reset handshake (acknowledgement lost) followed by a plain retry on the same object; a later reset whose RST
        # crosses a callback of the old session carrying each possible frame number
        if n in (4, 6, 8, 13, 14, 15) or ctx.tier == "thorough":
            cs.append((n, "/dev/ttyUSB0", None, (0, 0), "retry"))
            cs.append((n, "/dev/ttyUSB0", None, (0, 0), "lost-retry"))
            cs.append((n, "/dev/ttyUSB0", None, (0, 0), "linkfail"))
        if n in (4, 8, 14) or ctx.tier == "thorough":
            for k in range(8):
                cs.append((n, "/dev/ttyUSB0", None, (0, 0), f"crossing{k}"))
    for n in versions:
        for rx in range(0, ctx.n(4, 7)):
            for tx in range(0, ctx.n(4, 7)):
                if (rx, tx) != (0, 0):
                    cs.append((n, "/dev/ttyUSB0", None, (rx, tx), ctx.rng.random() < 0.3))
    return cs


def run(ctx):
    logging.disable(logging.CRITICAL)
    cs = cases(ctx)
    outs = [scenario(*c) for c in cs]
    model = ctx.driver([f"c09 {'again' if c[4] else 'neg'} {c[0]}" for c in cs])  # the model's renegotiation is the same for every kind of later reset
    model1 = ctx.driver([f"c09 neg {c[0]}" for c in cs])
    for i, (c, o) in enumerate(zip(cs, outs)):
        n, path, rstack, drops, again = c
        ctx.cov["evaluations"] += 1
        ctx.cov["distinct_nontrivial"] += 1
        ctx.count(f"ncp_version:{n}")
        ctx.count("result:" + o["result"].split(":")[0])
        bad = oracle(n, path, rstack, drops, again, o)
        if bad:
            ctx.violation(bad, {"kind": "config-missing" if "KeyError" in bad else "bringup", "version_gt_14": n > 14},
                          {"n": n, "path": path, "rstack": rstack, "drops": list(drops), "again": again})
        if again in ("retry", "lost-retry", "linkfail") or (isinstance(again, str) and again.startswith("crossing")):
            ctx.count("history:" + again.rstrip("0123456789"))
            if again in ("retry", "linkfail"):
                continue
        if model is not None and o["result"] == "ok" and drops == (0, 0):
            m = model1[i].split()
            qs = [x for x in m if "=" not in x]
            kv = dict(x.split("=") for x in m if "=" in x)
            got = o["frames"][: len(qs)]
            if got != qs or str(o["ev1"]) != kv["ev"] or str(o["hv1"]) != kv["hv"] or kv["cfg"] != "ok":
                ctx.corr_diff(f"negotiation against NCP v{n} differs", {"n": n, "path": path}, f"{got} ev={o['ev1']} hv={o['hv1']} cfg=ok", model1[i])
            if again:
                m2 = model[i].split()
                qs2 = [x for x in m2 if "=" not in x]
                k = o["n2"]
                if o["frames"][k : k + len(qs2)] != qs2:
                    ctx.corr_diff(f"renegotiation against NCP v{n} differs", {"n": n}, str(o["frames"][k : k + len(qs2)]), model[i])
        elif model is not None and o["result"].startswith("raised:KeyError") and drops == (0, 0):
            kv = dict(x.split("=") for x in model1[i].split() if "=" in x)
            if kv["cfg"] != "missing":
                ctx.corr_diff(f"write_config against NCP v{n}: implementation raised KeyError, model finds a default list", {"n": n}, o["result"], model1[i])
        if i % 60 == 0:
            ctx.sample({"case": list(map(str, c)), "result": o["result"], "frames": o["frames"][:3], "ev": o.get("ev1"), "hv": o.get("hv1")})
    ctx.cov["rule"] = ("NCP protocol versions 4..14, 15, 16, 255 x {serial path; socket path with the spontaneous start-up RSTACK early / late / absent} with a later reset and renegotiation (EZSP.reset + version; stop_ezsp + startup_reset + write_config; the same after a reset whose acknowledgement was lost), "
                       "the first 1..3 host frames after the handshake lost (recovered by ASH retransmissions inside the command timeout); a late start-up RSTACK of a socket NCP split around the host's RST; the reset acknowledgement duplicated by the line (two RSTACKs in one read); a bring-up whose first reset acknowledgement is lost retried on the same object, a later reset with a lost acknowledgement retried without stopping EZSP, a later reset whose RST crosses a callback of the old session carrying each frame number 0..7; and link faults during bring-up (the NCP loses the first 0..2 (0..5 thorough) frames in each direction); every run is a full connect + startup_reset + write_config of the real stack")
    ctx.exhaustive = True


search = run


def replay(ctx, obj):
    logging.disable(logging.CRITICAL)
    r = obj["replay"]
    o = scenario(r["n"], r["path"], r["rstack"], tuple(r["drops"]), r["again"])
    bad = oracle(r["n"], r["path"], r["rstack"], tuple(r["drops"]), r["again"], o)
    print(f"replay NCP v{r['n']} {r['path']}: {o['result']}: {'FAILS: ' + bad if bad else 'ok'}")
    if bad:
        print(f"VIOLATION property={ctx.pid} replay=replay")
    return 1 if bad else 0
