"""C14 — network settings round trip: the real ControllerApplication.write_network_info /
load_network_info over the real EZSP and per-version handlers against the stateful command-level NCP
store (responses built by field name); oracle = the property's field list; correspondence with the Lean
write / read-back model."""
import asyncio
import logging

from harness import ncpstore, shim

WELL_KNOWN = b"ZigBeeAlliance09"


def rand_settings(rng, version, tclk_mode):
    import zigpy.state
    import zigpy.types as zt

    def eui():
        return zt.EUI64.deserialize(bytes(rng.getrandbits(8) for _ in range(8)))[0]

    nkeys = rng.choice([0, 1, 2, 3, 5])
    partners = []
    while len(partners) < nkeys:
        e = eui()
        if e not in partners:
            partners.append(e)
    nchild = rng.choice([0, 1, 2, 4])
    childs = []
    while len(childs) < nchild:
        e = eui()
        if e not in childs and e not in partners:
            childs.append(e)
    chan = rng.randint(11, 26)
    mask = zt.Channels.from_channel_list(sorted(set([chan] + [rng.randint(11, 26) for _ in range(rng.randint(0, 3))])))
    if rng.random() < 0.3:
        # a network that was moved to a channel outside the mask it was formed with: legal, and to be kept as it is
        mask = zt.Channels.from_channel_list(sorted(set(c for c in [rng.randint(11, 26) for _ in range(rng.randint(1, 3))] if c != chan)) or [11 if chan != 11 else 12])
    tclk = WELL_KNOWN if tclk_mode == "wellknown" else bytes(rng.getrandbits(8) for _ in range(16))
    stack_specific = {}
    if rng.random() < 0.5:
        stack_specific = {"ezsp": {"hashed_tclk": bytes(rng.getrandbits(8) for _ in range(16)).hex()}}
    # (0x0000 is a legitimate 16-bit value in a backup: a child entry is a child entry whatever its address)
    nwk_addresses = {c: zt.NWK(rng.choice([0x0000, 0x0001, 0xFFF7, rng.randint(1, 0xFFF0), rng.randint(1, 0xFFF0)])) for c in childs if rng.random() < 0.85}
    ni = zigpy.state.NetworkInfo(
        extended_pan_id=zt.ExtendedPanId.deserialize(bytes(rng.getrandbits(8) for _ in range(8)))[0],
        pan_id=zt.PanId(rng.randint(1, 0xFFFE)), nwk_update_id=rng.getrandbits(8), nwk_manager_id=zt.NWK(0), channel=chan, channel_mask=mask,
        security_level=5,
        network_key=zigpy.state.Key(key=zt.KeyData(bytes(rng.getrandbits(8) for _ in range(16))), seq=rng.choice([0, rng.getrandbits(8)]), tx_counter=rng.choice([0, 0, 1, rng.getrandbits(32)])),
        tc_link_key=zigpy.state.Key(key=zt.KeyData(tclk), partner_ieee=rng.choice([zt.EUI64.UNKNOWN, eui()]), tx_counter=rng.getrandbits(32)),
        key_table=[zigpy.state.Key(key=zt.KeyData(bytes(rng.getrandbits(8) for _ in range(16))), partner_ieee=p) for p in partners],
        children=childs, nwk_addresses=nwk_addresses, stack_specific=stack_specific, metadata={})
    node = zigpy.state.NodeInfo(nwk=zt.NWK(0), ieee=rng.choice([zt.EUI64.UNKNOWN, eui()]), logical_type=0)
    return ni, node


async def roundtrip(version, nv3, ni, node, prior=None, refuse=None):
    import bellows.ezsp as ezsp_mod
    import copy

    app = shim.make_app()
    e = ezsp_mod.EZSP({"path": "/dev/null"})
    st = ncpstore.Store(version, nv3=nv3)
    st.attach(e)
    out = {}
    try:
        e._protocol = ezsp_mod.EZSP._BY_VERSION[4](e.handle_callback, e._gw)
        app._ezsp = e
        e.add_callback(app.ezsp_callback_handler)
        await e.startup_reset()
        out["prior_fc"], out["prior_keys"] = 0, 0
        if prior is not None:
            # the stick is not factory fresh: an earlier network was written to it
            p_ni, p_node = copy.deepcopy(prior[0]), copy.deepcopy(prior[1])
            if len(prior) > 2 and prior[2] == "aborted":
                # an earlier restore that broke off when the NCP refused to form the network: keys, address and counters of
                # that attempt are in the NCP, which is not on a network
                st.fail_form_once = True
                try:
                    await app.write_network_info(network_info=p_ni, node_info=p_node)
                    out["prior_aborted"] = "completed"
                except Exception as ex:  # noqa: BLE001
                    out["prior_aborted"] = type(ex).__name__
            else:
                await app.write_network_info(network_info=p_ni, node_info=p_node)
                if len(prior) > 2 and prior[2] == "loaded":
                    # the application has been running on that earlier network: its state holds what it loaded from the NCP
                    await app.load_network_info(load_devices=True)
            out["prior_fc"], out["prior_keys"] = st.nwk_fc, sum(1 for k in st.keys if k is not None)
        w_ni, w_node = copy.deepcopy(ni), copy.deepcopy(node)
        out["mfg_burnt_before"] = st.mfg_custom is not None
        if refuse == "nwk-counter":
            # the NCP refuses to have its network-key frame counter set: the restore fails (loudly), or what is read back is what
            # was written - a restore that reports success with another counter is neither
            import bellows.types as _t
            st.refuse_values = {int(_t.EzspValueId.VALUE_NWK_FRAME_COUNTER)}
            out["refused_counter"] = True
        elif refuse is not None:
            st.refuse_partner = bytes(ni.key_table[refuse].partner_ieee.serialize())
        await app.write_network_info(network_info=w_ni, node_info=w_node)
        out["written_stack_specific"] = w_ni.stack_specific
        out["written"] = w_ni
        out["sec"] = st.sec
        out["store"] = st
        await app.load_network_info(load_devices=True)
        out["loaded"] = app.state.network_info
        out["node"] = app.state.node_info
        out["result"] = "ok"
    except Exception as ex:
        out["result"] = f"raised:{type(ex).__name__}:{ex}"
    finally:
        st.detach()
    return out


def oracle(version, nv3, ni, node, o):
    import bellows.types as t
    import zigpy.types as zt

    if o["result"] != "ok" and o.get("refused_counter"):
        return None     # the fault was injected: a restore that fails loudly is an acceptable outcome
    if o["result"] != "ok":
        return ("round trip did not complete: " + o["result"], "crash")
    L = o["loaded"]
    for name in ("pan_id", "extended_pan_id", "channel", "channel_mask", "nwk_update_id"):
        if getattr(L, name) != getattr(ni, name):
            return (f"{name}: wrote {getattr(ni, name)!r}, read back {getattr(L, name)!r}", "param")
    if bytes(L.network_key.key) != bytes(ni.network_key.key) or L.network_key.seq != ni.network_key.seq:
        return (f"network key / sequence: wrote {ni.network_key.key}/{ni.network_key.seq}, read back {L.network_key.key}/{L.network_key.seq}", "nwkkey")
    if version >= 5 and L.network_key.tx_counter != ni.network_key.tx_counter:
        return (f"network-key frame counter: wrote {ni.network_key.tx_counter}, read back {L.network_key.tx_counter}", "counter")
    if bytes(L.tc_link_key.key) != bytes(ni.tc_link_key.key):
        return (f"trust-centre link key: wrote {ni.tc_link_key.key}, read back {L.tc_link_key.key} (protocol version {version})", "tclk")
    if version > 4:
        want_hash = ni.stack_specific.get("ezsp", {}).get("hashed_tclk") or o["written_stack_specific"].get("ezsp", {}).get("hashed_tclk")
        got_hash = L.stack_specific.get("ezsp", {}).get("hashed_tclk")
        if got_hash != want_hash:
            return (f"hashed TC link key in stack-specific data: wrote {want_hash}, read back {got_hash}", "hashed")
    wk = [(bytes(k.key), bytes(k.partner_ieee.serialize())) for k in ni.key_table]
    gk = [(bytes(k.key), bytes(k.partner_ieee.serialize())) for k in L.key_table]
    if sorted(wk) != sorted(gk):
        return (f"link-key table: wrote {len(wk)} entries, read back {len(gk)} (protocol version {version})", "linkkeys")
    if version >= 9:
        wc = sorted((bytes(c.serialize()), int(ni.nwk_addresses[c])) for c in ni.children if c in ni.nwk_addresses)
        gc = sorted((bytes(c.serialize()), int(L.nwk_addresses[c])) for c in L.children)
        if wc != gc:
            return (f"child table: wrote {len(wc)} children, read back {len(gc)}", "children")
    burn = bool(ni.stack_specific.get("ezsp", {}).get("i_understand_i_can_update_eui64_only_once_and_i_still_want_to_do_it")) and not o.get("mfg_burnt_before")
    if (o["store"].nv3 or burn) and node.ieee != zt.EUI64.UNKNOWN:
        # (the store has the rewritable token only where the protocol version has the token commands: v9+)
        # the coordinator address supplied is the trust centre's: where the NCP can take it, it is what is read back
        if o["node"].ieee != node.ieee:
            return (f"coordinator address: wrote {node.ieee}, read back {o['node'].ieee}", "ieee")
        if L.tc_link_key.partner_ieee != node.ieee:
            return (f"trust-centre link key partner: wrote {node.ieee}, read back {L.tc_link_key.partner_ieee}", "ieee")
    # ---- the security state sent to the NCP
    sec = o["sec"]
    B = t.EmberInitialSecurityBitmask
    if bytes(sec.networkKey) != bytes(ni.network_key.key) or int(sec.networkKeySequenceNumber) != ni.network_key.seq:
        return ("the security state sent does not carry the network key / sequence supplied", "sec")
    # presence flags match the fields supplied: a trust-centre address is announced iff one is carried (the written
    # settings hold it: the supplied one, or the adapter's own when write_network_info filled it in)
    have_tc = B.HAVE_TRUST_CENTER_EUI64 in sec.bitmask
    tc_known = o["written"].tc_link_key.partner_ieee != zt.EUI64.UNKNOWN
    if have_tc != tc_known:
        return (f"security state: trust-centre address flag is {have_tc} but the trust-centre address is "
                f"{'known' if tc_known else 'unknown'} ({o['written'].tc_link_key.partner_ieee})", "sec")
    if have_tc and bytes(sec.preconfiguredTrustCenterEui64.serialize()) != bytes(o["written"].tc_link_key.partner_ieee.serialize()):
        return (f"security state carries trust-centre address {sec.preconfiguredTrustCenterEui64}, supplied {o['written'].tc_link_key.partner_ieee}", "sec")
    hashed = B.TRUST_CENTER_USES_HASHED_LINK_KEY in sec.bitmask
    if hashed != (version > 4):
        return (f"hashed-link-key flag is {hashed} for protocol version {version}", "sec")
    if version <= 4 and bytes(sec.preconfiguredKey) != bytes(ni.tc_link_key.key):
        return ("the security state sent does not carry the trust-centre link key supplied", "sec")
    return None


def _k(b):
    return int.from_bytes(bytes(b), "big")


def _pairs(l):
    return ",".join(f"{a}:{b}" for a, b in l) or "-"


def model_line(version, ni, o):
    """the same settings as a line for the Lean write / read-back model"""
    import zigpy.types as zt

    w = o["written"]
    hashed = ni.stack_specific.get("ezsp", {}).get("hashed_tclk")
    gen = o["written_stack_specific"].get("ezsp", {}).get("hashed_tclk") or "00"
    keys = [(_k(k.key), _k(k.partner_ieee.serialize())) for k in ni.key_table]
    ch = [(_k(c.serialize()), int(ni.nwk_addresses[c])) for c in ni.children if c in ni.nwk_addresses]
    return " ".join(str(x) for x in [
        "c14", version, o["store"].K, o["prior_fc"], o["prior_keys"], int(ni.pan_id), _k(ni.extended_pan_id.serialize()), int(ni.channel), int(ni.channel_mask), int(ni.nwk_update_id),
        _k(ni.network_key.key), int(ni.network_key.seq), int(ni.network_key.tx_counter), _k(ni.tc_link_key.key),
        _k(bytes.fromhex(hashed)) if hashed else "-", 1 if w.tc_link_key.partner_ieee != zt.EUI64.UNKNOWN else 0,
        _k(bytes.fromhex(gen)), _pairs(keys), _pairs(ch)])


def impl_line(version, o):
    import bellows.types as t

    L = o["loaded"]
    sec = o["sec"]
    B = t.EmberInitialSecurityBitmask
    hashed = L.stack_specific.get("ezsp", {}).get("hashed_tclk")
    keys = [(_k(k.key), _k(k.partner_ieee.serialize())) for k in L.key_table]
    ch = [(_k(c.serialize()), int(L.nwk_addresses[c])) for c in L.children]
    return " ".join(str(x) for x in [
        int(L.pan_id), _k(L.extended_pan_id.serialize()), int(L.channel), int(L.channel_mask), int(L.nwk_update_id),
        _k(L.network_key.key), int(L.network_key.seq), int(L.network_key.tx_counter), _k(L.tc_link_key.key),
        _k(bytes.fromhex(hashed)) if hashed else "-", _pairs(keys), _pairs(ch),
        f"sec={_k(sec.networkKey)}/{int(sec.networkKeySequenceNumber)}/{_k(sec.preconfiguredKey)}/{1 if B.TRUST_CENTER_USES_HASHED_LINK_KEY in sec.bitmask else 0}/{1 if B.HAVE_TRUST_CENTER_EUI64 in sec.bitmask else 0}"])


def cases(ctx):
    rng = ctx.rng
    cs = []
    versions = list(range(4, 15))
    per = ctx.n(6, 40)
    for v in versions:
        for nv3 in (True, False):
            for i in range(per):
                mode = "wellknown" if i % 3 else "custom"
                ni, node = rand_settings(rng, v, mode)
                prior = rand_settings(rng, v, "wellknown") if i % 2 else None
                if i % 6 == 5:
                    # the same backup restored twice in a row (a retried restore), with a known coordinator address
                    import copy
                    import zigpy.types as zt

                    if node.ieee == zt.EUI64.UNKNOWN:
                        node.ieee = zt.EUI64.deserialize(bytes(rng.getrandbits(8) for _ in range(8)))[0]
                    prior = (copy.deepcopy(ni), copy.deepcopy(node))
                if i % 6 == 2:
                    # an aborted earlier restore of another backup (with link keys), then this one (with fewer)
                    pr = rand_settings(rng, v, "wellknown")
                    while len(pr[0].key_table) < 2:
                        pr = rand_settings(rng, v, "wellknown")
                    # (no children in the aborted attempt: whether an NCP that never formed the network keeps child entries
                    # written before the refusal is not something the simulated store can decide)
                    pr[0].children, pr[0].nwk_addresses = [], {}
                    prior = (pr[0], pr[1], "aborted")
                    ni.key_table = ni.key_table[:1]
                if prior is not None and len(prior) == 2 and i % 4 == 1:
                    prior[0].network_key.tx_counter = rng.randint(1 << 20, 1 << 31)  # a used stick, then a backup with a fresh counter
                    ni.network_key.tx_counter = rng.choice([0, 4096])
                    if i % 8 == 1:
                        prior = (prior[0], prior[1], "loaded")   # ... on which this very application object has been running
                cs.append((v, nv3, mode, ni, node, prior, None))
            # the NCP refuses to have its frame counter set (a fault at one step of the restore)
            if v >= 5:
                ni, node = rand_settings(rng, v, "wellknown")
                if ni.network_key.tx_counter == 0:
                    ni.network_key.tx_counter = 0x1234
                cs.append((v, nv3, "wellknown", ni, node, None, "nwk-counter"))
            # a backup that comes from another adapter: it says so in its metadata (the capability recorded there is the OTHER
            # adapter's), and / or it carries the owner's consent to burn the address once where the token cannot be rewritten
            for j in range(ctx.n(2, 6)):
                import zigpy.types as zt

                ni, node = rand_settings(rng, v, "wellknown")
                if node.ieee == zt.EUI64.UNKNOWN:
                    node.ieee = zt.EUI64.deserialize(bytes(rng.getrandbits(8) for _ in range(8)))[0]
                if j % 2 == 0:
                    ni.metadata = {"ezsp": {"stack_version": v, "can_burn_userdata_custom_eui64": bool(rng.getrandbits(1)), "can_rewrite_custom_eui64": not nv3}}
                else:
                    ni.stack_specific.setdefault("ezsp", {})["i_understand_i_can_update_eui64_only_once_and_i_still_want_to_do_it"] = True
                cs.append((v, nv3, "wellknown", ni, node, None, None))
            # the NCP refuses one link key of the backup (not the last one): every other key is still restored
            for j in range(ctx.n(1, 4)):
                ni, node = rand_settings(rng, v, "wellknown")
                while len(ni.key_table) < 3:
                    ni, node = rand_settings(rng, v, "wellknown")
                cs.append((v, nv3, "wellknown", ni, node, None, rng.randrange(len(ni.key_table) - 1)))
    return cs


def summarize(ni, node):
    return {"pan_id": int(ni.pan_id), "channel": int(ni.channel), "tclk_wellknown": bytes(ni.tc_link_key.key) == WELL_KNOWN,
            "keys": len(ni.key_table), "children": len(ni.children), "node_ieee_known": str(node.ieee)}


def run(ctx):
    logging.disable(logging.CRITICAL)
    cs = cases(ctx)
    lines, impl = [], []
    for i, (v, nv3, mode, ni, node, prior, refuse) in enumerate(cs):
        o = asyncio.run(roundtrip(v, nv3, ni, node, prior, refuse))
        if refuse == "nwk-counter":
            ctx.count("ncp-refuses-the-frame-counter")
        elif refuse is not None:
            # judged (and modelled) as the backup without the key the NCP would not take
            ctx.count("ncp-refuses-one-link-key")
            refused = ni.key_table[refuse]
            ni.key_table = [k for k in ni.key_table if k is not refused]
            if o["result"] == "ok":
                o["written"].key_table = [k for k in o["written"].key_table if k.partner_ieee != refused.partner_ieee]
        ctx.count("ncp:" + ("used" if prior else "fresh"))
        if o["result"] == "ok":
            lines.append(model_line(v, ni, o))
            impl.append(impl_line(v, o))
        ctx.cov["evaluations"] += 1
        ctx.cov["distinct_nontrivial"] += 1
        ctx.count(f"version:{v}")
        ctx.count(f"tclk:{mode}")
        ctx.count("result:" + o["result"].split(":")[0])
        bad = oracle(v, nv3, ni, node, o)
        if bad:
            msg, kind = bad
            key = {"kind": kind, "version_gt_4": v > 4, "tclk_wellknown": mode == "wellknown"}
            if kind == "linkkeys":
                key["version"] = v
            ctx.violation(f"v{v} (rewritable EUI64: {nv3}): {msg}", key, {"version": v, "nv3": nv3, "tclk": mode, "seed_index": i, "summary": summarize(ni, node)})
        if i % 40 == 0:
            ctx.sample({"version": v, "nv3": nv3, "settings": summarize(ni, node), "result": o["result"]})
    got = ctx.driver(lines)
    ctx.cov["correspondence_cases"] = len(lines)
    for ln, a, b in zip(lines, impl, got):
        if a != b:
            ctx.corr_diff("write / read-back model and the real application over the NCP store differ", {"line": ln}, a, b)
    ctx.cov["rule"] = (f"{ctx.n(6, 40)} random settings per protocol version 4..14 and per capability (rewritable EUI64 token or not): PAN/extended PAN, channel and mask, update ID, network key with sequence and frame counter, "
                       "channel masks with and without the current channel, frame counters including 0, the same backup restored twice, a restore after an aborted restore of another backup, a factory-fresh NCP or one that already holds an earlier network (frame counter, keys, children), well-known or custom trust-centre link key with or without a stored hashed form, 0..5 link keys, 0..4 children with/without NWK addresses; write then read back through the real application and handlers")
    ctx.exhaustive = False


search = run


def replay(ctx, obj):
    logging.disable(logging.CRITICAL)
    before = len(ctx.violations)
    run(ctx)
    r = obj["replay"]
    hits = [v for v in ctx.violations[before:] if v["replay"]["version"] == r["version"] and v["key"]["kind"] == obj["key"]["kind"]]
    print(f"replay v{r['version']} {obj['key']['kind']}: {'FAILS: ' + hits[0]['what'] if hits else 'ok'}")
    if hits:
        print(f"VIOLATION property={ctx.pid} replay=replay")
    return 1 if hits else 0
