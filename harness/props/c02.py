"""C02 — ASH byte-stream decoder: real AshProtocol.data_received on (stream, partition) versus the
Lean model (per-chunk correspondence) and the per-byte reference decoder (oracle on the whole stream)."""
import itertools
import logging

from harness import ashlib
from harness.ashlib import hx, unhx

ALPHA = [0x7E, 0x7D, 0x11, 0x13, 0x18, 0x1A, 0x5E, 0x5D, 0x31, 0x38]


def run_impl(rx, chunks):
    """-> (per-chunk event strings, final buffer length, discarding flag, rx_seq, exception or None)"""
    p, log = ashlib.make_proto(rx, 0)
    out = []
    exc = None
    maxbuf = 0
    for c in chunks:
        start = len(log)
        try:
            p.data_received(c)
        except Exception as e:  # "never raise out of the receive callback"
            exc = f"{type(e).__name__}"
            out.append(ashlib.evs(log, start))
            break
        maxbuf = max(maxbuf, len(p._buffer))
        out.append(ashlib.evs(log, start))
    return out, len(p._buffer), int(p._discarding_until_next_flag), p._rx_seq, exc, maxbuf


def valid_frames(rng, rx):
    """a plausible NCP->host conversation as wire bytes: DATA in and out of sequence, ACK/NAK, RSTACK, ERROR"""
    import bellows.ash as ash

    frames = []
    cur = rx
    for _ in range(rng.randint(1, 6)):
        t = rng.random()
        if t < 0.55:
            pl = bytes(rng.choice([0x7E, 0x7D, 0x11, 0x13, 0x18, 0x1A, 0x00, 0xFF, rng.getrandbits(8)]) for _ in range(rng.randint(0, 12)))
            f = ash.DataFrame(frm_num=cur if rng.random() < 0.8 else rng.randrange(8), re_tx=rng.random() < 0.2, ack_num=rng.randrange(8), ezsp_frame=pl)
            if f.frm_num == cur:
                cur = (cur + 1) % 8
        elif t < 0.7:
            f = ash.AckFrame(res=0, ncp_ready=0, ack_num=rng.randrange(8))
        elif t < 0.8:
            f = ash.NakFrame(res=0, ncp_ready=0, ack_num=rng.randrange(8))
        elif t < 0.9:
            f = ashlib.mk_frame(f"K:2:{rng.choice([11, 2, 0x55])}")
            cur = 0
        elif t < 0.95:
            f = ashlib.mk_frame(f"E:2:{rng.choice([81, 2])}")
        else:
            f = ash.RstFrame()
        if rng.random() < 0.12:
            # a CRC-valid frame of arbitrary shape: any control byte, data field of any length incl. the
            # lengths around and beyond the 256 bytes a DATA frame may carry (built without bellows)
            c0 = rng.choice([cur << 4, rng.randrange(8) << 4 | rng.randrange(16), 0x80 | rng.randrange(32), 0xA0 | rng.randrange(32),
                             0xC0, 0xC1, 0xC2, rng.randrange(0xC3, 0x100), rng.getrandbits(8)])
            n = rng.choice([0, 1, 2, 3, 5, 255, 256, 257, 258, 300, rng.randint(259, 900)])
            body = bytes([c0]) + bytes(rng.getrandbits(8) for _ in range(n))
            c = ashlib.crc16(body)
            frames.append(ashlib.spec_stuff(body + bytes([c >> 8, c & 0xFF])) + b"\x7e")
            if c0 < 0x80 and (c0 >> 4) == cur and n <= 256:
                cur = (cur + 1) % 8
            continue
        frames.append(bytes(ash.AshProtocol._stuff_bytes(f.to_bytes())) + b"\x7e")
    return frames


def mutate(rng, stream: bytes) -> bytes:
    s = bytearray(stream)
    for _ in range(rng.randint(0, 3)):
        if not s:
            break
        m = rng.randrange(5)
        i = rng.randrange(len(s))
        if m == 0:
            s.insert(i, rng.choice(ALPHA))
        elif m == 1:
            del s[i]
        elif m == 2:
            s[i] ^= 1 << rng.randrange(8)
        elif m == 3:
            s[i] = rng.choice(ALPHA)
        else:
            s[i:i] = bytes(rng.getrandbits(8) for _ in range(rng.randint(1, 5)))
    return bytes(s)


def partitions(n):
    for bits in range(1 << max(n - 1, 0)):
        cuts = [i + 1 for i in range(n - 1) if bits >> i & 1]
        yield [0] + cuts + [n]


def split(stream, cuts):
    return [stream[a:b] for a, b in zip(cuts, cuts[1:])]


def rand_split(rng, stream):
    n = len(stream)
    if n == 0:
        return [b""]
    k = rng.choice([0, 1, 2, 5, n // 3, n - 1])
    cuts = sorted(set(rng.randrange(1, n) for _ in range(min(k, n - 1)))) if n > 1 else []
    return split(stream, [0] + cuts + [n])


def cases(ctx):
    rng = ctx.rng
    cs = []
    L = ctx.n(4, 5)
    for n in range(1, L + 1):
        for w in itertools.product(ALPHA, repeat=n):
            s = bytes(w)
            if n <= 3:
                for cuts in partitions(n):
                    cs.append((0, split(s, cuts)))
            else:
                cs.append((0, [s]))
                cs.append((0, [s[i : i + 1] for i in range(n)]))
                cs.append((0, rand_split(rng, s)))
    for _ in range(ctx.n(3000, 50000)):
        rx = rng.randrange(8)
        stream = b"".join(valid_frames(rng, rx))
        if rng.random() < 0.7:
            stream = mutate(rng, stream)
        if rng.random() < 0.2:
            stream = bytes(rng.choice(ALPHA + [rng.getrandbits(8)]) for _ in range(rng.randint(0, 30))) + stream
        for _ in range(2):
            cs.append((rx, rand_split(rng, stream)))
        cs.append((rx, [stream]))
    # long streams: many frames, reads of every size incl. sizes around MAX_BUFFER_SIZE, garbage runs
    import bellows.ash as ash

    MAXB = ash.MAX_BUFFER_SIZE
    for _ in range(ctx.n(60, 600)):
        rx = rng.randrange(8)
        parts = []
        cur = rx
        for _ in range(rng.randint(20, 160)):
            if rng.random() < 0.85:
                f = ash.DataFrame(frm_num=cur, re_tx=False, ack_num=0, ezsp_frame=bytes(rng.getrandbits(8) for _ in range(rng.randint(0, 6))))
                cur = (cur + 1) % 8
                parts.append(bytes(ash.AshProtocol._stuff_bytes(f.to_bytes())) + b"\x7e")
            else:
                parts.append(bytes(rng.choice([0xEE, 0x7D, 0x42]) for _ in range(rng.randint(1, 400))) + (b"\x7e" if rng.random() < 0.5 else b""))
        stream = b"".join(parts)
        size = rng.choice([1, 7, 64, 500, MAXB - 1, MAXB, MAXB + 1, 2 * MAXB, len(stream) or 1])
        cs.append((rx, [stream[i : i + size] for i in range(0, len(stream), size)] or [b""]))
        cs.append((rx, [stream[i : i + 64] for i in range(0, len(stream), 64)] or [b""]))
    # the same while discarding after a SUBSTITUTE byte: the data between it and the next FLAG is dropped, not kept
    for size in (100, 1000, 5000):
        f = ashlib.mk_frame("D:0:0:0:0102")
        tail = b"\x7e" + bytes(ash.AshProtocol._stuff_bytes(f.to_bytes())) + b"\x7e"
        cs.append((0, [b"\x42\x18"] + [bytes([0xEE]) * size] * ctx.n(30, 300) + [tail]))
        cs.append((0, [b"\x18" + bytes([0xEE]) * size] + [bytes([0x55]) * size] * ctx.n(10, 100) + [tail]))
    # unterminated garbage far beyond the buffer, then a valid frame
    for size in (100, 1000):
        g = bytes([0xEE]) * size
        f = ashlib.mk_frame("D:0:0:0:0102")
        tail = b"\x7e" + bytes(ash.AshProtocol._stuff_bytes(f.to_bytes())) + b"\x7e"
        cs.append((0, [g] * ctx.n(30, 300) + [tail]))
        # ... of every kind of byte that does not end a frame: a line stuck on the escape byte, escape-rich noise, valid escape pairs
        for g in (bytes([0x7D]) * size, bytes(rng.choice([0x7D, 0x7D, 0x5E, 0x31, 0xEE]) for _ in range(size)), bytes([0x7D, 0x5E]) * (size // 2),
                  bytes([0xEE] * (size - 3) + [0x7D] * 3)):
            cs.append((0, [g] * ctx.n(30, 300) + [tail]))
    return cs


def evaluate(ctx, cs, record=True):
    impl = [run_impl(rx, ch) for rx, ch in cs]
    lines = []
    for rx, ch in cs:
        lines.append(f"c02 feed {rx} " + " ".join(hx(c) for c in ch))
        lines.append(f"c02 ref {rx} " + hx(b"".join(ch)))
    out = ctx.driver(lines)
    import bellows.ash as ash

    MAXB = ash.MAX_BUFFER_SIZE
    nontriv = 0
    seen = set()
    for i, ((rx, ch), im) in enumerate(zip(cs, impl)):
        per, blen, disc, rxs, exc, maxbuf = im
        stream = b"".join(ch)
        if record:
            ctx.cov["evaluations"] += 1
            ctx.count(f"streamlen:{'<=4' if len(stream) <= 4 else '<=64' if len(stream) <= 64 else '<=1024' if len(stream) <= 1024 else '>1024'}")
            ctx.count(f"chunks:{'1' if len(ch) == 1 else '2-8' if len(ch) <= 8 else '>8'}")
            key = (rx, tuple(ch))
            if key not in seen:
                seen.add(key)
                if any(b in stream for b in (0x7D, 0x11, 0x13, 0x18, 0x1A)) and any(e != "." for e in per):
                    nontriv += 1
        flat = ",".join(e for e in per if e != ".") or "."
        if exc:
            ctx.violation(f"data_received raised {exc} on stream {hx(stream)[:80]}", {"kind": "exception"},
                          {"rx": rx, "chunks": [hx(c) for c in ch]})
            continue
        if maxbuf > MAXB:
            ctx.violation(f"buffer grew to {maxbuf} bytes > MAX_BUFFER_SIZE", {"kind": "buffer"}, {"rx": rx, "chunks": [hx(c) for c in ch]})
        if out is None:
            continue
        model, ref = out[2 * i], out[2 * i + 1]
        if flat != ref:
            big = max(len(c) for c in ch) > MAXB
            ctx.violation(
                f"decoded events differ from the reference decoder for a stream of {len(stream)} bytes in {len(ch)} reads "
                f"(largest read {max(len(c) for c in ch)}): implementation {flat[:200]} / reference {ref[:200]}",
                {"kind": "big-read-truncation" if big else "decode", "largest_read_gt_max": big},
                {"rx": rx, "chunks": [hx(c) for c in ch], "impl": flat, "ref": ref},
            )
        mine = "|".join(per) + f" buf={blen} disc={disc} rx={rxs}"
        if mine != model:
            ctx.corr_diff("data_received per-chunk trace differs", {"rx": rx, "chunks": [hx(c) for c in ch][:20]}, mine[:500], model[:500])
        if record and i % 5000 == 11:
            ctx.sample({"rx": rx, "chunks": [hx(c) for c in ch][:6], "impl": mine[:300], "model": model[:300], "ref": ref[:300]})
    if record:
        ctx.cov["distinct_nontrivial"] += nontriv


def run(ctx):
    logging.disable(logging.CRITICAL)
    evaluate(ctx, cases(ctx))
    ctx.cov["rule"] = ("every stream of length <= 4 (5 thorough) over the alphabet {7E,7D,11,13,18,1A,5E,5D,31,38} with all partitions (length <= 3) or whole/bytewise/random partitions; "
                       "random concatenations of valid frames of all six types, mutated by insert/delete/flip/substitute, with random partitions and as a single read; long streams read in sizes "
                       "1..2*MAX_BUFFER_SIZE; unterminated garbage followed by a valid frame. non-trivial = distinct case whose stream contains a reserved byte other than FLAG and produces an event")
    ctx.exhaustive = True


search = run


def replay(ctx, obj):
    logging.disable(logging.CRITICAL)
    r = obj["replay"]
    cs = [(r["rx"], [unhx(c) for c in r["chunks"]])]
    before = len(ctx.violations)
    evaluate(ctx, cs, record=False)
    bad = ctx.violations[before:] or ctx.known_hits
    print(f"replay: {len(cs[0][1])} reads: {'FAILS: ' + str(bad[0]['what']) if bad else 'ok'}")
    if ctx.violations[before:]:
        print(f"VIOLATION property={ctx.pid} replay=replay")
        return 1
    return 0
