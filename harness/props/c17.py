"""C17 — event-completed operations: real EZSP.formNetwork / leaveNetwork / startScan and the real
ControllerApplication._ensure_network_running with a scripted command layer on the deterministic loop;
versus the Lean model (correspondence at settled states) and the property's statements (oracle)."""
import asyncio
import itertools
import logging

from harness import shim, vloop


class World:
    def __init__(self, version):
        import bellows.ezsp as ezsp
        import bellows.types as t

        self.t = t
        self.version = version
        self.loop = vloop.VLoop().install()
        self.e = ezsp.EZSP({"path": "/dev/null"})
        self.e._protocol = ezsp.EZSP._BY_VERSION[version](self.e.handle_callback, None)
        self.e._ezsp_version = version
        self.e._protocol.command = self.fake_command
        self.e.start_ezsp()
        # a second EZSP object alive in the same process (another radio, a tool next to the application, the old object around a
        # reconnect): what its NCP reports is none of the first object's business
        self.e2 = ezsp.EZSP({"path": "/dev/null"})
        self.e2._protocol = ezsp.EZSP._BY_VERSION[version](self.e2.handle_callback, None)
        self.e2._ezsp_version = version
        self.e2.start_ezsp()
        self.app = None
        self.log = []
        self.queue = []  # (op id, name, future) commands awaiting a scripted response, FIFO
        self.tasks = {}
        self.ncmd = {}
        self.cur = None
        self.events = []
        self.base_callbacks = len(self.e._callbacks)

    def close(self):
        self.loop.shutdown()

    async def fake_command(self, name, *args, **kwargs):
        op = self.cur_op.get()
        n = self.ncmd.get(op, 0)
        self.ncmd[op] = n + 1
        self.log.append(f"K{op}:{n}")
        fut = asyncio.get_running_loop().create_future()
        entry = (op, name, fut)
        self.queue.append(entry)
        try:
            return await fut
        finally:
            if entry in self.queue:
                self.queue.remove(entry)

    async def _run(self, op, kind):
        import contextvars
        import bellows.exception as bex
        import zigpy.exceptions as ze
        from bellows.zigbee.application import ControllerError, NetworkNotFormed

        self.cur_op.set(op)
        t = self.t
        try:
            if kind == "form":
                params = t.EmberNetworkParameters(extendedPanId=t.ExtendedPanId([1] * 8), panId=0x1234, radioTxPower=8, radioChannel=15,
                                                  joinMethod=t.EmberJoinMethod.USE_MAC_ASSOCIATION, nwkManagerId=0, nwkUpdateId=0, channels=0)
                await self.e.formNetwork(params)
                self.log.append(f"D{op}:ok[]")
            elif kind == "leave":
                await self.e.leaveNetwork()
                self.log.append(f"D{op}:ok[]")
            elif kind in ("leave2", "form2", "leaveform"):
                # a caller that repeats / chains operations without yielding in between (a retry loop, leave-then-form)
                params = t.EmberNetworkParameters(extendedPanId=t.ExtendedPanId([1] * 8), panId=0x1234, radioTxPower=8, radioChannel=15,
                                                  joinMethod=t.EmberJoinMethod.USE_MAC_ASSOCIATION, nwkManagerId=0, nwkUpdateId=0, channels=0)
                for step, which in enumerate({"leave2": "ll", "form2": "ff", "leaveform": "lf"}[kind]):
                    if which == "l":
                        await self.e.leaveNetwork()
                    else:
                        await self.e.formNetwork(params)
                    self.log.append(f"P{op}:{step}")
                self.log.append(f"D{op}:ok[]")
            elif kind == "up":
                if self.app is None:
                    self.app = shim.make_app()
                    self.app._ezsp = self.e
                started = await self.app._ensure_network_running()
                self.log.append(f"D{op}:ok[]" if started else f"D{op}:notstarted")
            else:
                res = await self.e.startScan(t.EzspNetworkScanType.ENERGY_SCAN, 0x07FFF800, 2)
                self.log.append(f"D{op}:ok[" + "+".join(str(int(r[1]) & 0xFF) for r in res) + "]")
        except asyncio.TimeoutError:
            self.log.append(f"D{op}:timeout")
        except asyncio.CancelledError:
            self.log.append(f"D{op}:cancelled")
        except NetworkNotFormed:
            self.log.append(f"D{op}:notjoined")
        except (bex.EzspError, ze.FormationFailure, ControllerError):
            self.log.append(f"D{op}:refused")
        except Exception as e:
            msg = str(e)
            self.log.append(f"D{op}:cfailed" if self._is_completion_failure(e) else f"D{op}:refused" if type(e) is Exception else f"D{op}:!{type(e).__name__}")

    def _is_completion_failure(self, e):
        # _list_command raises a bare Exception(v) both for a refused command and for a failed completion;
        # the completion callback's value has two elements here, the command response one
        try:
            return type(e) is Exception and len(e.args[0]) == 2
        except Exception:
            return False

    def state(self):
        e = self.e
        t = self.t
        lup = len(e._stack_status_listeners.get(t.sl_Status.NETWORK_UP, []))
        ldown = len(e._stack_status_listeners.get(t.sl_Status.NETWORK_DOWN, []))
        return f"lup={lup} ldown={ldown} cbs={len(e._callbacks) - self.base_callbacks} now={round(self.loop.time() * 1e6)}"

    def do(self, ev):
        import contextvars

        t = self.t
        start = len(self.log)
        k = ev[0]
        v14 = self.version >= 14
        if k == "B":
            _, op, kind = ev.split("=")
            if not hasattr(self, "cur_op"):
                self.cur_op = contextvars.ContextVar("op")
            self.tasks[int(op)] = self.loop.create_task(self._run(int(op), kind))
            self.loop.settle()
        elif k == "R":
            r = ev[2:]
            if self.queue:
                op, name, fut = self.queue[0]
                ok = t.sl_Status.OK if v14 else t.EmberStatus.SUCCESS
                bad = t.sl_Status.FAIL if v14 else t.EmberStatus.ERR_FATAL
                nj = t.sl_Status.NOT_JOINED if v14 else t.EmberStatus.NOT_JOINED
                if name == "networkState":
                    # (joined without a parent is not "the network is up": bring-up goes ahead as from any other state)
                    fut.set_result(({"joined": t.EmberNetworkStatus.JOINED_NETWORK, "noparent": t.EmberNetworkStatus.JOINED_NETWORK_NO_PARENT,
                                     "leaving": t.EmberNetworkStatus.LEAVING_NETWORK}.get(r, t.EmberNetworkStatus.NO_NETWORK),))
                else:
                    st = {"ok": ok, "refused": bad, "notjoined": nj, "joined": bad, "noparent": bad, "leaving": bad}[r]
                    fut.set_result((st,))
            self.loop.settle()
        elif k == "E":
            st = ev[2:]
            if v14:
                val = {"up": t.sl_Status.NETWORK_UP, "down": t.sl_Status.NETWORK_DOWN, "other": t.sl_Status.ZIGBEE_NETWORK_OPENED}[st]
            else:
                val = {"up": t.EmberStatus.NETWORK_UP, "down": t.EmberStatus.NETWORK_DOWN, "other": t.EmberStatus.NETWORK_OPENED}[st]
            self.loop.iterate([(self.e.handle_callback, "stackStatusHandler", [val])])
            self.loop.settle()
        elif k == "Y":
            # the command's response and a stack-status event in ONE loop iteration (one read carrying both frames)
            _, order, stn = ev.split("=")
            cbs = []
            if self.queue:
                op, name, fut = self.queue[0]
                ok = t.sl_Status.OK if v14 else t.EmberStatus.SUCCESS
                cbs.append((fut.set_result, (ok,)))
            if v14:
                val = {"up": t.sl_Status.NETWORK_UP, "down": t.sl_Status.NETWORK_DOWN}[stn]
            else:
                val = {"up": t.EmberStatus.NETWORK_UP, "down": t.EmberStatus.NETWORK_DOWN}[stn]
            cbs.append((self.e.handle_callback, "stackStatusHandler", [val]))
            if order == "er":
                cbs.reverse()
            self.loop.iterate(cbs)
            self.loop.settle()
        elif k == "I":
            tag = int(ev[2:])
            self.loop.iterate([(self.e.handle_callback, "energyScanResultHandler", [t.uint8_t(11), t.int8s(tag - 256 if tag > 127 else tag)])])
            self.loop.settle()
        elif k == "Z":
            st = ev[2:]
            if v14:
                val = {"up": t.sl_Status.NETWORK_UP, "down": t.sl_Status.NETWORK_DOWN}[st]
            else:
                val = {"up": t.EmberStatus.NETWORK_UP, "down": t.EmberStatus.NETWORK_DOWN}[st]
            self.loop.iterate([(self.e2.handle_callback, "stackStatusHandler", [val])])
            self.loop.settle()
        elif k == "N":
            # the scan's other kind of result callback (a network found): a result like any other, in reception order
            tag = int(ev[2:])
            net = t.EmberZigbeeNetwork(channel=11, panId=0x1234, extendedPanId=t.ExtendedPanId([2] * 8), allowingJoin=0, stackProfile=2, nwkUpdateId=0)
            self.loop.iterate([(self.e.handle_callback, "networkFoundHandler", [net, t.uint8_t(tag), t.int8s(-40)])])
            self.loop.settle()
        elif k == "X":
            ok = ev[2:] == "1"
            st = (t.sl_Status.OK if v14 else t.EmberStatus.SUCCESS) if ok else (t.sl_Status.FAIL if v14 else t.EmberStatus.ERR_FATAL)
            self.loop.iterate([(self.e.handle_callback, "scanCompleteHandler", [t.uint8_t(26), st])])
            self.loop.settle()
        elif k == "T":
            self.loop.fire_next_timer()
        elif k == "W":
            self.loop.set_time(self.loop.time() + 0.001)
            self.loop.settle()
        elif k == "C":
            tk = self.tasks.get(int(ev[2:]))
            if tk is not None and not tk.done():
                tk.cancel()
            self.loop.settle()
        self.events.append((ev, self.log[start:], self.state()))


def run_script(version, script):
    w = World(version)
    w.attr = []
    mev = []
    try:
        for ev in script:
            if ev == "T" and w.loop.next_timer() is None:
                continue
            if ev[0] == "R" and not w.queue:
                continue
            if ev[0] == "R":
                # the response goes to the oldest outstanding command; tell the model what kind it was
                op, name, _ = w.queue[0]
                r = ev[2:]
                if name == "networkState":
                    r = "joined" if r == "joined" else "ok"
                elif r in ("joined", "noparent", "leaving"):
                    r = "refused"
                mev.append(f"R={op}={r}")
                w.attr.append((op, name))
                w.do(ev if name == "networkState" or ev not in ("R=joined", "R=noparent", "R=leaving") else "R=refused")
                w.do("W"); mev.append("W=1/1000"); w.attr.append(None)
                continue
            w.do(ev)
            # (to the model both kinds of result are results; an event of the other EZSP object is no event at all)
            mev.append("I" + ev[1:] if ev[0] == "N" else "W=0/1" if ev[0] == "Z" else ev)
            w.attr.append(None)
            w.do("W"); mev.append("W=1/1000"); w.attr.append(None)
    finally:
        w.close()
    return w, mev


def oracle(w, mev, timeouts):
    """C17 on the implementation trace"""
    ops = {}
    for (ev, entries, st), m, at in zip(w.events, mev, w.attr):
        now = int(st.split("now=")[1]) / 1e6
        if m.startswith("B="):
            _, op, kind = m.split("=")
            ops[int(op)] = {"kind": kind, "t0": now, "resp": None, "event_after_reg": False, "items": [], "complete": None, "registered": kind != "up", "t_resp": None}
        if m.startswith("E="):
            for o in ops.values():
                if o.get("done"):
                    continue
                want = "down" if o["kind"] == "leave" else "up"
                if o["kind"] != "scan" and o["registered"] and m[2:] == want:
                    o["event_after_reg"] = True
        if m.startswith("I="):
            for o in ops.values():
                if o["kind"] == "scan" and not o.get("done"):
                    o["items"].append(int(m[2:]))
        if m.startswith("X="):
            for o in ops.values():
                if o["kind"] == "scan" and not o.get("done") and o["complete"] is None:
                    o["complete"] = m[2:] == "1"
                    o["items_at_complete"] = list(o["items"])
        if m.startswith("R=") and at is not None and at[0] in ops:
            o = ops[at[0]]
            m = "R=" + m.split("=")[2]
            if at[1] == "networkState":
                if m[2:] == "joined":
                    o["resp"] = "joined"
                else:
                    o["registered"] = True
            else:
                o["resp"] = m[2:]
                o["t_resp"] = now
        for e in entries:
            if e[0] != "D":
                continue
            op, res = e[1:].split(":", 1)
            op = int(op)
            o = ops[op]
            o["done"] = True
            if res.startswith("!"):
                return f"operation {op} ({o['kind']}) ended with an unexpected exception {res}"
            if o["kind"] == "scan":
                if res == "timeout":
                    return (f"scan {op} was ended by a timeout at {now}: a scan ends with its completion callback (or its caller's cancellation), "
                            "the results collected so far are not to be thrown away")
                if res.startswith("ok["):
                    got = [int(x) for x in res[3:-1].split("+") if x]
                    if o["resp"] != "ok" or o["complete"] is not True:
                        return f"scan {op} returned without its command succeeding and its completion callback arriving"
                    base = o["items_at_complete"]
                    if got[: len(base)] != base:
                        return f"scan {op} returned {got}, the result callbacks between issue and completion were {base}"
            else:
                if res == "notstarted" and o["kind"] == "up" and o["resp"] != "joined":
                    return (f"bring-up {op} ended as 'already running' without sending the network-init command although the NCP did not report "
                            "the joined state")
                if res == "ok[]":
                    if o["resp"] != "ok" or not o["event_after_reg"]:
                        return (f"{o['kind']} operation {op} completed although " +
                                ("its command did not succeed" if o["resp"] != "ok" else "no matching stack-status event arrived after its listener was registered"))
                if res == "timeout":
                    T = timeouts[o["kind"]]
                    if o["t_resp"] is None or abs(now - (o["t_resp"] + T)) > 1e-6:
                        return f"{o['kind']} operation {op} timed out at {now}, expected {T}s after its command succeeded ({o['t_resp']})"
                    if o["event_after_reg"]:
                        return f"{o['kind']} operation {op} timed out although the matching event arrived after registration"
        # leak check at every settled state: listeners and callbacks belong to operations still in progress
        live_status = sum(1 for o in ops.values() if not o.get("done") and o["kind"] != "scan")
        live_scan = sum(1 for o in ops.values() if not o.get("done") and o["kind"] == "scan")
        parts = dict(x.split("=") for x in st.split())
        if int(parts["lup"]) + int(parts["ldown"]) > live_status:
            return f"stack-status listeners remain registered ({st}) with only {live_status} status operations in progress"
        if int(parts["cbs"]) != live_scan:
            return f"{parts['cbs']} scan callbacks registered with {live_scan} scans in progress ({st})"
        # no missed event: once its command has succeeded and a matching event has arrived after its listener was
        # registered, the operation is over at the next settled state
        for op, o in ops.items():
            if o["kind"] != "scan" and not o.get("done") and o["event_after_reg"] and o["resp"] == "ok":
                return f"{o['kind']} operation {op} is still waiting after {m} although its stack-status event arrived after its listener was registered: it missed its event"
    return None


def chain_cases(ctx):
    """(version, kind, events, expected outcome of the whole chain)"""
    out = []
    ev_of = {"l": "down", "f": "up"}
    for version in (4, 8, 14):
        for kind, seq in (("leave2", "ll"), ("form2", "ff"), ("leaveform", "lf")):
            # every way of delivering (response, event) of each step: separately, or together in one iteration (response first)
            for modes in itertools.product(("sep", "re"), repeat=2):
                evs = [f"B=1={kind}"]
                for which, mode in zip(seq, modes):
                    if mode == "sep":
                        evs += ["R=ok", f"E={ev_of[which]}"]
                    else:
                        evs += [f"Y=re={ev_of[which]}"]
                out.append((version, kind, evs, "ok[]"))
            # the second step is refused / never gets its event
            out.append((version, kind, [f"B=1={kind}", f"Y=re={ev_of[seq[0]]}", "R=refused"], "refused"))
            out.append((version, kind, [f"B=1={kind}", f"Y=re={ev_of[seq[0]]}", "R=ok", "T"], "timeout"))
    return out


def run_chain(version, kind, evs):
    w = World(version)
    try:
        for ev in evs:
            if ev == "T" and w.loop.next_timer() is None:
                continue
            if ev[0] == "R" and not w.queue:
                continue
            w.do(ev)
            w.do("W")
    finally:
        w.close()
    return w


def scripts(ctx):
    rng = ctx.rng
    out = []
    status_kinds = ["form", "leave", "up"]
    for kind in status_kinds:
        alpha0 = ["R=ok", "R=refused", "R=notjoined", "R=joined", "E=up", "E=down", "E=other", "T", "C=1"]
        L = ctx.n(3, 4)
        for n in range(1, L + 1):
            # (events of the second EZSP object: in every word up to length 3; the longer words of the thorough tier go without)
            alpha = alpha0 + (["Z=up", "Z=down", "R=noparent", "R=leaving"] if n <= 3 else [])
            for w in itertools.product(alpha, repeat=n):
                out.append([f"B=1={kind}"] + list(w))
    alpha_scan = ["R=ok", "R=refused", "I", "J", "X=1", "X=0", "C=1", "E=up"]
    for n in range(1, ctx.n(4, 5) + 1):
        # (a scan has no deadline of its own - it ends with its completion callback, however long that takes: "T" lets whatever
        # timer is armed expire; in words up to length 4)
        alpha = alpha_scan + (["T"] if n <= 4 else [])
        for w in itertools.product(alpha, repeat=n):
            sc, tag = ["I=99", "B=1=scan"], 0
            for x in w:
                if x == "I":
                    tag += 1
                    # (the two kinds of result callback alternate)
                    sc.append(f"{'IN'[tag % 2]}={tag}")
                elif x == "J":
                    # the same result again (same channel, same value): every result callback counts
                    sc.append(f"I={max(tag, 1)}")
                else:
                    sc.append(x)
            out.append(sc)
    # repeated and overlapping operations
    for _ in range(ctx.n(400, 6000)):
        sc = []
        nops = 0
        for _ in range(rng.randint(4, 16)):
            x = rng.random()
            if x < 0.2 and nops < 4:
                nops += 1
                sc.append(f"B={nops}={rng.choice(['form', 'leave', 'up', 'scan'])}")
            elif x < 0.45:
                sc.append("R=" + rng.choice(["ok", "ok", "ok", "refused", "notjoined", "joined", "noparent", "leaving"]))
            elif x < 0.65:
                sc.append(rng.choice(["E=up", "E=down", "E=other", "E=up", "E=down", "Z=up", "Z=down"]))
            elif x < 0.75:
                sc.append(f"{rng.choice('IIN')}={rng.choice([7, 7, 8, rng.randrange(1, 100)])}")
            elif x < 0.85:
                sc.append("X=" + rng.choice("110"))
            elif x < 0.93:
                sc.append("T")
            elif nops:
                sc.append(f"C={rng.randint(1, nops)}")
        out.append(sc)
    return out


def run(ctx):
    logging.disable(logging.CRITICAL)
    import bellows.ezsp as ezsp_mod
    import bellows.zigbee.application as app_mod

    timeouts = {"form": ezsp_mod.NETWORK_OPS_TIMEOUT, "leave": ezsp_mod.NETWORK_OPS_TIMEOUT, "up": app_mod.NETWORK_UP_TIMEOUT_S}
    scs = scripts(ctx)
    versions = [4, 8, 14]
    runs = [(versions[i % 3],) + run_script(versions[i % 3], sc) for i, sc in enumerate(scs)]
    model = ctx.driver(["c17 run " + " ".join(mev) for v, w, mev in runs])
    nontriv = 0
    for i, (v, w, mev) in enumerate(runs):
        ctx.cov["evaluations"] += 1
        if any(m == "T" or m.startswith("C=") or m.endswith(("=refused", "=notjoined")) for m in mev) or sum(1 for m in mev if m[0] == "B") > 1:
            nontriv += 1
        for (ev, en, st) in w.events:
            for e in en:
                if e[0] == "D":
                    ctx.count("outcome:" + e.split(":")[1].split("[")[0])
        bad = oracle(w, mev, timeouts)
        if bad:
            leak = "remain registered" in bad or "callbacks registered" in bad
            ctx.violation(bad, {"kind": "leak" if leak else "event-op"}, {"version": v, "events": mev})
        if model is not None and mev:
            ms = model[i].split("|")
            for (ev, en, st), m, me_ in zip(w.events, ms, mev):
                mo, mst = m.split(";")
                mex = [] if mo == "." else mo.split(",")
                if sorted(mex) != sorted(en) or mst != st:
                    ctx.corr_diff(f"event-operation trace differs at {me_}", {"version": v, "events": mev[:30]}, f"{en} {st}", f"{mex} {mst}")
                    break
        if i % 3000 == 5:
            ctx.sample({"version": v, "events": mev[:10], "impl": [[en, st] for _, en, st in w.events][:6]})
    # operations chained by one caller without yielding, with a step's response and event arriving in one loop iteration
    for version, kind, evs, want in chain_cases(ctx):
        w = run_chain(version, kind, evs)
        ctx.cov["evaluations"] += 1
        ctx.count("chain:" + kind)
        done = [e for _, en, _ in w.events for e in en if e[0] == "D"]
        st = w.events[-1][2] if w.events else ""
        got = done[0].split(":", 1)[1] if done else "still-waiting"
        bad = None
        if got != want:
            bad = (f"v{version} {kind}: a caller that runs the two operations back to back ended with '{got}', expected '{want}' "
                   f"(each step's command succeeded and its stack-status event arrived after its listener was registered) - events {evs}")
        elif "lup=0 ldown=0" not in st:
            bad = f"v{version} {kind}: stack-status listeners remain registered after the chain ended ({st}) - events {evs}"
        if bad:
            ctx.violation(bad, {"kind": "event-op-chain"}, {"version": version, "chain": kind, "events": evs, "want": want})
    # callbacks registered for an operation are its own: the registry never hands a live registration's id to another
    # (model + theorems: BV.Registry / c06_registry_*; the same differential as in C06, here for the list operations)
    from harness.props import c06 as _c06

    rcs = _c06.registry_cases(ctx)
    rres = [_c06.run_registry(ctx.rng.choice([4, 8, 14]), sc) for sc in rcs]
    rmodel = ctx.driver(["c06 reg " + " ".join(ops) for ops, _, _ in rres])
    for k, (sc, (ops, outs, bad)) in enumerate(zip(rcs, rres)):
        ctx.cov["evaluations"] += 1
        ctx.count("registry")
        if bad:
            ctx.violation("callback registry: " + bad, {"kind": "callback-registry"}, {"registry": [list(x) for x in sc]})
        if rmodel is not None and "|".join(outs) != rmodel[k]:
            ctx.corr_diff("callback registry trace differs", {"registry": [list(x) for x in sc][:30]}, "|".join(outs)[:400], rmodel[k][:400])
    ctx.cov["distinct_nontrivial"] = nontriv
    ctx.cov["rule"] = (f"formNetwork, leaveNetwork and _ensure_network_running: every event order of length 1..{ctx.n(3, 4)} over {{response ok / refused / not-joined / already-joined, matching and non-matching stack-status events, "
                       f"timeout, cancellation}}; startScan: every order of length 1..{ctx.n(4, 5)} over {{response, result callbacks (new and repeated values), completion ok/failed, cancellation}} with one result before the scan is issued; random scripts with up to four "
                       "overlapping operations; handlers v4/v8/v14; the callback registry (add / remove / fan-out sequences with colliding ids, as in C06); non-trivial = a timeout, cancellation, refusal or more than one operation")
    ctx.exhaustive = True


search = run


def replay(ctx, obj):
    logging.disable(logging.CRITICAL)
    import bellows.ezsp as ezsp_mod
    import bellows.zigbee.application as app_mod

    r = obj["replay"]
    if "registry" in r:
        from harness.props import c06 as _c06

        ops, outs, bad = _c06.run_registry(4, [tuple(x) for x in r["registry"]])
        print(f"replay registry {r['registry']}: {'FAILS: ' + bad if bad else 'ok'}")
        if bad:
            print(f"VIOLATION property={ctx.pid} replay=replay")
        return 1 if bad else 0
    if "chain" in r:
        w = run_chain(r["version"], r["chain"], r["events"])
        done = [e for _, en, _ in w.events for e in en if e[0] == "D"]
        got = done[0].split(":", 1)[1] if done else "still-waiting"
        bad = None if got == r["want"] and "lup=0 ldown=0" in w.events[-1][2] else f"chain ended with {got}, expected {r['want']} ({w.events[-1][2]})"
        print(f"replay chain v{r['version']} {r['events']}: {'FAILS: ' + bad if bad else 'ok'}")
        if bad:
            print(f"VIOLATION property={ctx.pid} replay=replay")
        return 1 if bad else 0
    w, mev = run_script(r["version"], r["events"])
    bad = oracle(w, mev, {"form": ezsp_mod.NETWORK_OPS_TIMEOUT, "leave": ezsp_mod.NETWORK_OPS_TIMEOUT, "up": app_mod.NETWORK_UP_TIMEOUT_S})
    print(f"replay v{r['version']} {r['events']}: {'FAILS: ' + bad if bad else 'ok'}")
    if bad:
        print(f"VIOLATION property={ctx.pid} replay=replay")
    return 1 if bad else 0
