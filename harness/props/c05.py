"""C05 — ASH sender: real AshProtocol.send_data on the deterministic loop with scripted peer reactions,
versus the Lean sender model (correspondence at settled states) and the property's statements evaluated
on the implementation's wire/outcome trace (oracle)."""
import asyncio
import itertools
import logging
from fractions import Fraction

from harness import ashlib, vloop
from harness.ashlib import hx


# ---- independent decoding of what the host wrote (does not use bellows) ------------------------
def _lfsr(n):
    out, r = [], 0x42
    for _ in range(n):
        out.append(r)
        r = (r >> 1) ^ 0xB8 if r & 1 else r >> 1
    return out


_RAND = _lfsr(256)


def decode_wire(b: bytes):
    """-> ('D', frm, retx, ack, payload) | ('A', ack) | ('N', ack) | ('R',) | ('?',)"""
    if b[:1] == b"\x1a":
        b = b[1:]
    assert b[-1] == 0x7E
    raw, esc = bytearray(), False
    for c in b[:-1]:
        if esc:
            raw.append(c ^ 0x20)
            esc = False
        elif c == 0x7D:
            esc = True
        else:
            raw.append(c)
    c0, data = raw[0], raw[1:-2]
    if c0 < 0x80:
        return ("D", c0 >> 4 & 7, c0 >> 3 & 1, c0 & 7, bytes(x ^ y for x, y in zip(data, _RAND)))
    if c0 < 0xA0:
        return ("A", c0 & 7)
    if c0 < 0xC0:
        return ("N", c0 & 7)
    if c0 == 0xC0:
        return ("R",)
    return ("?",)


class Run:
    def __init__(self, tx0, rx0):
        import bellows.ash as ash

        self.ash = ash
        self.loop = vloop.VLoop().install()
        ash.time.monotonic = self.loop.time  # `_t_rx_ack` measurements on the virtual clock (module alias of `time`)
        self.p, self.log = ashlib.make_proto(rx0, tx0)
        self.tasks = {}
        self.events = []  # (event string, entries, state)

    def close(self):
        import time as _time

        self.loop.shutdown()

    async def _caller(self, i, payload):
        ash = self.ash
        try:
            await self.p.send_data(payload)
            self.log.append(f"D{i}:ok")
        except ash.NotAcked:
            self.log.append(f"D{i}:nak")
        except ash.NcpFailure as e:
            try:
                self.log.append(f"D{i}:fail{int(e.code)}")
            except Exception:
                self.log.append(f"D{i}:fail0")
        except asyncio.TimeoutError:
            self.log.append(f"D{i}:timeout")
        except asyncio.CancelledError:
            self.log.append(f"D{i}:cancelled")
        except Exception as e:
            self.log.append(f"D{i}:!{type(e).__name__}")

    def state(self):
        p, ash = self.p, self.ash
        out = ",".join(str(k) for k, f in p._pending_data_frames.items() if not f.done()) or "-"
        return (f"tx={p._tx_seq} rx={p._rx_seq} failed={int(p._ncp_state == ash.NcpState.FAILED)} "
                f"t={round(p._t_rx_ack * 1e6)} now={round(self.loop.time() * 1e6)} out={out}")

    def outstanding(self):
        """(frm, last write) of the DATA frame awaiting its ack, from the host's own bookkeeping"""
        for k, f in self.p._pending_data_frames.items():
            if not f.done():
                return k
        return None

    def do(self, ev):
        start = len(self.log)
        kind = ev[0]
        loop = self.loop
        if kind == "S":
            _, i, payload = ev.split("=")
            self.tasks[int(i)] = loop.create_task(self._caller(int(i), ashlib.unhx(payload)))
            loop.settle()
        elif kind == "F":
            loop.iterate([(self.p.frame_received, ashlib.mk_frame(ev[2:]))])
            loop.settle()
        elif kind == "T":
            loop.fire_next_timer()
        elif kind == "X":
            loop.fire_next_timer([(self.p.frame_received, ashlib.mk_frame(ev[2:]))])
        elif kind == "B":
            _, f, g = ev.split("=")
            loop.iterate([(self.p.frame_received, ashlib.mk_frame(f)), (self.p.frame_received, ashlib.mk_frame(g))])
            loop.settle()
        elif kind == "W":
            fr = Fraction(ev[2:])
            loop.set_time(loop.time() + float(fr))
            loop.settle()
        elif kind == "C":
            self.tasks[int(ev[2:])].cancel()
            loop.settle()
        elif kind == "Z":
            # the host asks for a reset (Gateway.reset does this): an RST frame goes out; only the RSTACK that answers it
            # ends a failed state
            try:
                self.p.send_reset()
            except Exception as e:  # noqa: BLE001
                self.log.append(f"!{type(e).__name__}")
            loop.settle()
        entries = self.log[start:]
        self.events.append((ev, entries, self.state()))


LETTERS = "asntekrdwc"


def script(rng, tx0, rx0, nq, word):
    """run the reaction word against the real protocol; returns the Run (events recorded)"""
    r = Run(tx0, rx0)
    nid = 0
    npay = [0]

    def new_send():
        nonlocal nid
        nid += 1
        npay[0] += 1
        r.do(f"S={nid}={npay[0]:02x}{rng.getrandbits(8):02x}")

    try:
        for _ in range(nq + 1):
            new_send()
        rxn = rx0  # frame number the NCP would use next towards the host

        def other(f):
            """an acknowledgement number that is neither the outstanding frame's nor its successor's (a stale or
            replayed frame): it covers nothing the host has outstanding"""
            k = (f + rng.randint(2, 7)) % 8
            return rng.choice([f"A:0:0:{k}", f"A:0:0:{k}", f"N:0:0:{k}", f"D:{r.p._rx_seq}:0:{k}:{rng.getrandbits(16):04x}"])

        def frame_for(c, f):
            if c == "o":
                return other(f)
            return {"a": f"A:0:0:{(f + 1) % 8}", "s": f"A:0:0:{f}", "n": f"N:0:0:{f}", "e": f"E:2:{rng.choice([2, 81, 0, 0, rng.choice([c for c in range(256) if c != 11])])}",
                    "k": "K:2:11", "d": f"D:{r.p._rx_seq}:0:{(f + 1) % 8}:{rng.getrandbits(16):04x}"}[c]

        it = iter(word)
        for ch in it:
            if ch == "b":  # two frames in one read
                c1, c2 = next(it, "a"), next(it, "a")
                frm = r.outstanding()
                if frm is None:
                    new_send()
                    frm = r.outstanding()
                f = 0 if frm is None else frm
                r.do(f"B={frame_for(c1, f)}={frame_for(c2, f)}")
                continue
            frm = r.outstanding()
            if frm is None and ch in "asntrdco":
                new_send()
                frm = r.outstanding()
            f = 0 if frm is None else frm
            if ch == "a":
                r.do(f"F=A:{rng.choice([0, 0, 1])}:{rng.choice([0, 0, 1])}:{(f + 1) % 8}")
            elif ch == "s":
                r.do(f"F=A:0:0:{f}")
            elif ch == "n":
                # (the reserved bit and the not-ready flag of a NAK / ACK change nothing in what the frame acknowledges or rejects)
                r.do(f"F=N:{rng.choice([0, 0, 1])}:{rng.choice([0, 0, 1])}:{f}")
            elif ch == "o":
                r.do("F=" + other(f))
            elif ch == "t":
                if r.loop.next_timer() is None:
                    new_send()
                r.do("T")
            elif ch == "e":
                r.do(f"F=E:2:{rng.choice([2, 81, 0, 0, rng.choice([c for c in range(256) if c != 11])])}")
            elif ch == "k":
                r.do("F=K:2:11")
                rxn = 0
            elif ch == "z":
                r.do("Z")
                new_send()
            elif ch == "r":
                if r.loop.next_timer() is None:
                    continue
                r.do(f"X={rng.choice(['A:0:0:%d' % ((f + 1) % 8), 'N:0:0:%d' % f])}")
            elif ch == "d":
                rxn = r.p._rx_seq
                r.do(f"F=D:{rxn}:0:{(f + 1) % 8}:{rng.getrandbits(16):04x}")
            elif ch == "w":
                nt = r.loop.next_timer()
                d = Fraction(rng.choice([37, 113, 251]), 1000)
                if nt is not None and r.loop.time() + float(d) >= nt - 1e-6:
                    continue
                r.do(f"W={d.numerator}/{d.denominator}")
            elif ch == "W":
                # a slow peer: a long wait that still ends before the ACK timeout (the answer that follows arrives late but in time)
                nt = r.loop.next_timer()
                if nt is None:
                    continue
                room = nt - r.loop.time()
                d = Fraction(rng.choice([2, 3, 5, 7, 9]), 10) * Fraction(int(room * 1000), 1000)
                d = Fraction(int(d * 1000), 1000)
                if d <= 0 or r.loop.time() + float(d) >= nt - 1e-3:
                    continue
                r.do(f"W={d.numerator}/{d.denominator}")
            elif ch == "c":
                live = [i for i, t in r.tasks.items() if not t.done()]
                if live:
                    r.do(f"C={rng.choice(live)}")
    finally:
        r.close()
    return r


def done_here_ok(entries, pay_of, ph):
    return any(e[0] == "D" and pay_of.get(int(e[1:].split(":")[0])) == ph and e.endswith(":ok") for e in entries)


def oracle(r, consts):
    """the property on the implementation's trace; returns message or None"""
    maxatt, tmin, tmax = consts
    sends = {}  # payload -> dict(frm, writes=[(t, retx)], done)
    order = []  # payloads in order of first transmission
    failed = False  # upper layer was told / ERROR seen, no RSTACK since
    expect_frm = None
    outstanding = None  # payload of the DATA frame not yet completed
    results = {}
    pay_of = {}
    prev_outstanding = None
    wire_out = None
    told = 0
    started, finished = set(), set()
    was_failed = False
    last_out = "-"
    for ev, entries, st in r.events:
        now = int(st.split("now=")[1].split()[0]) / 1e6
        is_failed = "failed=1" in st
        out_now = st.split("out=")[1]
        if "," in out_now:
            return f"more than one unacknowledged DATA frame outstanding ({out_now}) after event {ev}"
        kind = ev[0]
        if kind == "S":
            _, i, payload = ev.split("=")
            pay_of[int(i)] = payload
        if kind == "B":  # judged as its frames in turn: NAK/ack/ERROR/RSTACK facts are the union
            fs_ = ev.split("=")[1:]
        else:
            fs_ = [ev[2:]] if kind in "FX" else []
        nak_here = any(x[0] == "N" for x in fs_)
        timeout_here = kind in "TX"
        if kind in "FX" and ev[2] == "E":
            failed_after = True
        else:
            failed_after = None
        is_rstack = any(x[0] == "K" for x in fs_)
        n_rstack = sum(1 for x in fs_ if x[0] == "K")
        # the wire's own view of "outstanding": a DATA frame is unacknowledged from its first transmission until a frame
        # whose acknowledgement number covers it arrives, or the link fails / is reset (nothing is retransmitted then)
        if wire_out is not None:
            wfr = sends[wire_out]["frm"]
            # (an RSTACK does not acknowledge it: the sender keeps retransmitting it and keeps the transmit window)
            if any(x[0] in "AND" and int(x.split(":")[3]) == (wfr + 1) % 8 for x in fs_) or is_failed or \
                    any(e[0] == "R" and not (is_rstack and e == "R11") for e in entries):
                wire_out = None
        prev_out_for_nak = outstanding if (outstanding is not None and last_out.isdigit() and int(last_out) == sends[outstanding]["frm"]) else None
        last_out = out_now
        if outstanding is not None:
            fr = sends[outstanding]["frm"]
            cov_here = any(x[0] in "AND" and int(x.split(":")[3]) == (fr + 1) % 8 for x in fs_)
            told_here = sum(1 for e in entries if e[0] == "R") > n_rstack
            # a covering acknowledgement that races the timeout is discarded by the sender (it retransmits)
            done_here = any(e[0] == "D" and pay_of.get(int(e[1:].split(":")[0])) == outstanding and not e.endswith("cancelled") for e in entries)
            # completion is read off the host's own bookkeeping: its ack future is gone, or replaced by the next send's
            gone = out_now == "-" or (int(out_now) != fr) or done_here or told_here
            if gone:
                prev_outstanding, outstanding = outstanding, None
        if kind == "F" and ev[2] == "N" and prev_out_for_nak is not None and not is_failed:
            pfr = sends[prev_out_for_nak]["frm"]
            if int(ev.split(":")[3]) == pfr and len(sends[prev_out_for_nak]["writes"]) < maxatt:
                rew = [e for e in entries if e[0] == "W" and decode_wire(ashlib.unhx(e[1:]))[0] == "D"
                       and hx(decode_wire(ashlib.unhx(e[1:]))[4]) == prev_out_for_nak]
                cancelled_here = any(e[0] == "D" and e.endswith("cancelled") for e in entries)
                if not rew and not cancelled_here and results.get(prev_out_for_nak) is None:
                    return (f"NAK for the outstanding frame {pfr} ({prev_out_for_nak}) on event {ev} was not answered by its retransmission at once "
                            f"({len(sends[prev_out_for_nak]['writes'])} of {maxatt} attempts used)")
        for e in sorted(entries, key=lambda e: e[0] != "D"):
            if e[0] == "W":
                d = decode_wire(ashlib.unhx(e[1:]))
                if d[0] != "D":
                    continue
                _, frm, retx, ack, payload = d
                ph = hx(payload)
                if failed:
                    return f"DATA frame {ph} written after the link failed and before any RSTACK"
                s = sends.get(ph)
                if s is None:
                    if retx:
                        return f"first transmission of {ph} carries the retransmit flag"
                    if expect_frm is not None and frm != expect_frm:
                        return f"frame numbers not consecutive: {ph} numbered {frm}, expected {expect_frm}"
                    if wire_out is not None:
                        return (f"DATA frame {ph} (number {frm}) written while frame {sends[wire_out]['frm']} ({wire_out}) is still unacknowledged: "
                                f"more than one DATA frame outstanding (event {ev})")
                    sends[ph] = s = {"frm": frm, "writes": [now], "cause": []}
                    outstanding = ph
                    wire_out = ph
                    expect_frm = (frm + 1) % 8
                else:
                    if not retx:
                        return f"retransmission of {ph} without the retransmit flag"
                    if frm != s["frm"]:
                        return f"retransmission of {ph} changed its frame number {s['frm']} -> {frm}"
                    if outstanding != ph and not (outstanding is None and prev_outstanding == ph and not done_here_ok(entries, pay_of, ph)):
                        return f"retransmission of {ph} after it completed"
                    gap = now - s["writes"][-1]
                    if not nak_here:
                        if not timeout_here:
                            return f"retransmission of {ph} neither on a NAK nor at an ACK timeout (event {ev})"
                        if not (tmin - 1e-6 <= gap <= tmax + 1e-6):
                            return f"ACK timeout of {gap:.6f}s outside [{tmin}, {tmax}]"
                    s["writes"].append(now)
                    if len(s["writes"]) > maxatt:
                        return f"{ph} transmitted {len(s['writes'])} times, budget is {maxatt}"
            elif e[0] == "R":
                code = int(e[1:])
                if is_rstack and code == 11 and n_rstack > 0:
                    n_rstack -= 1
                    failed = False
                    expect_frm = 0
                else:
                    told += 1
                    failed = True
            elif e[0] == "D":
                i, res = e[1:].split(":")
                ph = pay_of[int(i)]
                if res != "cancelled":
                    results[ph] = res
                    if outstanding == ph:
                        outstanding = None
                if res.startswith("!"):
                    return f"send {ph} ended with unexpected exception {res}"
                if res in ("nak", "timeout"):
                    # a send gives up only when its budget is exhausted: that fails the link, and the upper layer is told why
                    told_now = [int(x[1:]) for x in entries if x[0] == "R"]
                    if not is_failed or 81 not in told_now:
                        return (f"send {ph} gave up ({res}) after {len(sends.get(ph, {}).get('writes', []))} transmissions on event {ev}, but the link was not "
                                f"failed / the upper layer was not told (failed={int(is_failed)}, told {told_now})")
                if res == "ok":
                    s = sends.get(ph)
                    if s is None:
                        return f"send {ph} reported success without ever being transmitted"
                    # an acknowledgement covering the frame must have been processed in this event
                    cov = any(x[0] in "AND" and int(x.split(":")[3]) == (s["frm"] + 1) % 8 for x in fs_)
                    if not cov:
                        return f"send {ph} (frame {s['frm']}) reported success on event {ev}, which does not acknowledge it"
        # ---- the failure clause: told once with the reason, waiting sends fail
        if kind == "S":
            started.add(int(ev.split("=")[1]))
        for e in entries:
            if e[0] == "D":
                finished.add(int(e[1:].split(":")[0]))
        err_codes = [int(x.split(":")[2]) for x in fs_ if x[0] == "E"]
        reports = [int(e[1:]) for e in entries if e[0] == "R"]
        for x in fs_:
            if x[0] == "K" and 11 in reports:
                reports.remove(11)
        if not was_failed and (err_codes or is_failed):
            if err_codes and not is_failed and not any(x[0] == "K" for x in fs_):
                return f"an ERROR frame arrived (event {ev}) and the link is not in the failed state"
            # one report per failure cause in this event: each ERROR frame, and an exhausted budget - by a timer that fired
            # or by a NAK answering the last attempt - when it coincides with it in the same loop iteration
            nak_here = any(x[0] == "N" for x in fs_)
            hi = max(1, len(err_codes) + (1 if (timeout_here or nak_here) else 0))
            extra = [c for c in reports if c not in err_codes and c != 81]
            if extra:
                return f"the link failed on event {ev} and the upper layer was told with reason(s) {extra}, which no ERROR frame carried"
            lo = 1 if timeout_here else max(1, len(err_codes))
            if not (lo <= len(reports) <= hi):
                return f"the link failed on event {ev} and the upper layer was told {len(reports)} times"
            if err_codes and kind != "B" and reports[0] != err_codes[0]:
                return f"ERROR frame with code {err_codes[0]} was reported to the upper layer as {reports[0]}"
            waiting = sorted(started - finished)
            if waiting and is_failed:
                return f"the link failed on event {ev} and sends {waiting} were still waiting afterwards"
        was_failed = is_failed
    return None


def cases(ctx):
    rng = ctx.rng
    out = []
    L = ctx.n(4, 5)     # (7^5 words in the thorough tier; the random families below go deeper)
    core = "asntekr"
    for n in range(1, L + 1):
        for w in itertools.product(core, repeat=n):
            out.append((0, 0, 0, "".join(w)))
    for n in range(1, 4):  # stale / replayed acknowledgement numbers among the other reactions
        for w in itertools.product(core + "o", repeat=n):
            if "o" in w:
                out.append((rng.randrange(8), rng.randrange(8), 0, "".join(w)))
                out.append((rng.randrange(8), rng.randrange(8), 1, "".join(w) + "a"))
    # the host asks for a reset after a failure (and at other moments), then sends: nothing but the RSTACK re-opens the link
    for pre in ("e", "ttttt", "nnnnn", "a", "", "ea", "t"):
        for post in ("", "a", "k", "ka", "t", "e"):
            out.append((rng.randrange(8), rng.randrange(8), rng.randrange(2), pre + "z" + post))
    # slow answers: the adaptive timeout after late-but-in-time ACKs / NAKs, then silence so that the timeout in force shows
    # as the gap before the retransmission (the clamp to [T_RX_ACK_MIN, T_RX_ACK_MAX] must hold at every step)
    for pre in ("", "t", "tt", "n", "tn"):
        for mid in itertools.product(("Wa", "Wn", "WWa", "wa", "Wd"), repeat=ctx.n(2, 3)):
            for post in ("t", "tt", "Wat"):
                out.append((rng.randrange(8), rng.randrange(8), 0, pre + "".join(mid) + post))
    pairs = ["b" + x + y for x in "asnekdo" for y in "asnekdo"]
    toks = list(core) + pairs
    for n in range(1, 3):
        for w in itertools.product(toks, repeat=n):
            if any(len(t) > 1 for t in w):
                out.append((0, 0, 0, "".join(w)))
                out.append((0, 0, 1, "".join(w) + "tat"))
    for _ in range(ctx.n(1500, 20000)):
        w = "".join(rng.choice(["a", "a", "a", "s", "n", "n", "t", "t", "e", "k", "r", "d", "d", "w", "w", "W", "W", "c", "o", "o", "z", rng.choice(pairs)]) for _ in range(rng.randint(3, 14)))
        out.append((rng.randrange(8), rng.randrange(8), rng.randint(0, 2), w))
    for _ in range(ctx.n(20, 200)):  # long: frame numbers wrap
        w = "".join(rng.choice("aaaaaadwn") for _ in range(60))
        out.append((rng.randrange(8), rng.randrange(8), 1, w))
    return out


def run(ctx):
    logging.disable(logging.CRITICAL)
    import time as _time
    import bellows.ash as ash

    consts = (ash.ACK_TIMEOUTS, ash.T_RX_ACK_MIN, ash.T_RX_ACK_MAX)
    real_monotonic = _time.monotonic
    cs = cases(ctx)
    runs = []
    try:
        for tx0, rx0, nq, w in cs:
            runs.append(script(ctx.rng, tx0, rx0, nq, w))
    finally:
        pass
    lines = [f"c05 run {tx0} {rx0} " + " ".join(ev for ev, _, _ in r.events if ev != "Z") for (tx0, rx0, nq, w), r in zip(cs, runs)]
    model = ctx.driver(lines)
    nontriv = 0
    for i, ((tx0, rx0, nq, w), r) in enumerate(zip(cs, runs)):
        ctx.cov["evaluations"] += 1
        retx = sum(1 for _, en, _ in r.events for e in en if e[0] == "W" and decode_wire(ashlib.unhx(e[1:]))[0] == "D" and decode_wire(ashlib.unhx(e[1:]))[2])
        if retx:
            nontriv += 1
        for ch in set(w):
            ctx.count(f"reaction:{ch}")
        for _, en, _ in r.events:
            for e in en:
                if e[0] == "D":
                    ctx.count("outcome:" + e.split(":")[1].rstrip("0123456789"))
        bad = oracle(r, consts)
        if bad:
            ctx.violation(bad, {"kind": "sender"}, {"tx": tx0, "rx": rx0, "events": [ev for ev, _, _ in r.events], "impl": [[en, st] for _, en, st in r.events]})
        if model is not None and not any(ev == "Z" for ev, _, _ in r.events):
            ms = model[i].split("|") if r.events else []
            for k, ((ev, en, st), m) in enumerate(zip(r.events, ms)):
                mo, mst = m.split(";")
                mcur = mst.split(" cur=")[1].split()[0]
                mst = mst.split(" cur=")[0] + " out=" + (mcur.split("/")[1] if mcur != "-" else "-")
                me = [] if mo == "." else mo.split(",")
                a = ([e for e in en if e[0] != "D"], sorted(e for e in en if e[0] == "D"))
                b = ([e for e in me if e[0] != "D"], sorted(e for e in me if e[0] == "D"))
                def near(x, y):
                    fx, fy = x.split(), y.split()
                    return fx[:3] == fy[:3] and fx[5] == fy[5] and all(abs(int(u.split("=")[1]) - int(v.split("=")[1])) <= 1 for u, v in zip(fx[3:5], fy[3:5]))
                if a != b or not near(st, mst):
                    ctx.corr_diff(f"sender trace differs at event {k} ({ev})", {"tx": tx0, "rx": rx0, "events": [e for e, _, _ in r.events[: k + 1]]},
                                  f"{en} {st}", f"{me} {mst}")
                    break
        if i % 2500 == 17:
            ctx.sample({"tx": tx0, "rx": rx0, "queued": nq, "word": w, "events": [ev for ev, _, _ in r.events][:10], "impl": [[en, st] for _, en, st in r.events][:5]})
    ctx.cov["distinct_nontrivial"] = nontriv
    ctx.cov["rule"] = (f"every reaction word of length 1..{ctx.n(4, 5)} over {{covering ACK, stale ACK, ACK/NAK/DATA with an acknowledgement number covering nothing outstanding (length 1..3), NAK, ACK timeout, ERROR, RSTACK, ACK/NAK racing the timeout in one loop iteration}} for a single send (exhaustive), "
                       "random words of length 3..14 adding piggy-backed acks on DATA, clock advances, caller cancellation, 0..2 queued sends and all 64 start counters; 60-reaction runs wrapping the frame number; "
                       "the host's own reset request (send_reset) after a failure and at other moments, followed by a new send; non-trivial = the run contains at least one retransmission")
    ctx.exhaustive = True


search = run


def replay(ctx, obj):
    logging.disable(logging.CRITICAL)
    import bellows.ash as ash

    rp = obj["replay"]
    r = Run(rp["tx"], rp["rx"])
    try:
        for ev in rp["events"]:
            r.do(ev)
    finally:
        r.close()
    bad = oracle(r, (ash.ACK_TIMEOUTS, ash.T_RX_ACK_MIN, ash.T_RX_ACK_MAX))
    print(f"replay {rp['events']}: {'FAILS: ' + bad if bad else 'ok'}")
    if bad:
        print(f"VIOLATION property={ctx.pid} replay=replay")
    return 1 if bad else 0
