"""C04 — host receiver: real AshProtocol.frame_received on frame objects vs the Lean model
(correspondence) and the property's statements evaluated on the implementation's trace (oracle)."""
import asyncio
import itertools
import logging

from harness import ashlib
from harness.ashlib import hx

FUT = {"w": None}


def alphabet():
    al = []
    for f in range(8):
        for r in (0, 1):
            for a in (0, 5):
                al.append(f"D:{f}:{r}:{a}:{f:02x}{r:02x}")
    # the same payload under different frame numbers, first transmissions and retransmissions (two identical callbacks
    # in a row are two frames: both are handed up)
    for f in (0, 1, 2, 7):
        for r in (0, 1):
            al.append(f"D:{f}:{r}:0:aa")
    # DATA frames whose unstuffed bytes hold the escape byte followed by a byte that looks like an escaped reserved byte (0x7D 0x31 ...):
    # in the control byte + first data byte, and inside the randomised data field (only the byte-level family tells them apart)
    al += ["D:7:1:5:73", "D:0:0:0:3f10", "D:1:0:0:aa5c9b"]
    al += ["A:0:0:1", "A:0:1:6", "N:0:0:1", "N:1:0:4", "R", "K:2:11", "K:2:2", "K:2:85", "K:2:0", "E:2:81", "E:2:2", "E:2:0", "E:2:200", "D:3:0:1:-"]
    return al


def fut_state(f):
    import bellows.ash as ash

    if not f.done():
        return "w"
    e = f.exception()
    if e is None:
        return "a"
    if isinstance(e, ash.NotAcked):
        return "n"
    if isinstance(e, ash.NcpFailure):
        return f"f{int(e.code)}"
    return "c"


def run_impl(loop, rx, tx, failed, pend, frames):
    """returns list of per-frame 'events;state' strings"""
    import bellows.ash as ash

    p, log = ashlib.make_proto(rx, tx)
    if failed:
        p._ncp_state = ash.NcpState.FAILED
    for n in pend:
        p._pending_data_frames[n] = loop.create_future()
    out = []
    for fs in frames:
        f = ashlib.mk_frame(fs)
        start = len(log)
        p._t_rx_ack = 2.0
        try:
            p.frame_received(f)
        except ash.NcpFailure:
            log.append("X")
        except Exception as e:
            log.append(f"!{type(e).__name__}")
        pend_s = ",".join(f"{k}={fut_state(v)}" for k, v in p._pending_data_frames.items()) or "-"
        st = (f"rx={p._rx_seq} tx={p._tx_seq} failed={int(p._ncp_state == ash.NcpState.FAILED)} "
              f"treset={int(p._t_rx_ack == ash.T_RX_ACK_INIT)} pending={pend_s}")
        out.append(ashlib.evs(log, start) + ";" + st)
    for fu in p._pending_data_frames.values():
        if fu.done():
            fu.exception()  # mark retrieved
    return out


def wire_of(fs):
    """specification bytes of a frame given in the alphabet's notation (None for shapes the byte level cannot carry)"""
    k = fs.split(":")
    try:
        if k[0] == "D":
            pl = b"" if k[4] == "-" else bytes.fromhex(k[4])
            if not pl:
                return None
            return ashlib.spec_wire("D", frm=int(k[1]), retx=int(k[2]), ack=int(k[3]), payload=pl)
        if k[0] in "AN":
            return ashlib.spec_wire(k[0], ack=int(k[3]))
        if k[0] == "R":
            return ashlib.spec_wire("R")
        if k[0] in "KE":
            return ashlib.spec_wire(k[0], code=int(k[2]))
    except Exception:  # noqa: BLE001
        return None
    return None


def run_read(rx, frames):
    """all the frames arrive in ONE read; returns the events of that read"""
    p, log = ashlib.make_proto(rx, 0)
    chunk = b"".join(wire_of(f) for f in frames)
    try:
        p.data_received(chunk)
    except Exception as e:  # noqa: BLE001
        log.append(f"!{type(e).__name__}")
    return list(log), p._rx_seq


def expect_read(rx, frames, ackw, nakw):
    """the receiver's rules applied frame by frame: every DATA frame has its own answer, in arrival order"""
    ev = []
    for fs in frames:
        k = fs.split(":")
        if k[0] == "D":
            n, r = int(k[1]), int(k[2])
            if n == rx:
                rx = (rx + 1) % 8
                ev += ["W" + ackw[rx], "U" + k[4]]
            else:
                ev += ["W" + (ackw[rx] if r else nakw[rx])]
        elif k[0] == "K":
            ev += ["R" + k[2]]
            rx = 0
        elif k[0] == "E":
            ev += ["R" + k[2]]
    return ev, rx


def oracle(rx0, frames, trace, ackw, nakw):
    """the property on the implementation's trace; returns (index, message) or None"""
    rx = rx0
    for i, (fs, tr) in enumerate(zip(frames, trace)):
        evs, st = tr.split(";")
        es = [] if evs == "." else evs.split(",")
        ups = [e[1:] for e in es if e[0] == "U"]
        wr = [e[1:] for e in es if e[0] == "W"]
        rs = [e[1:] for e in es if e[0] == "R"]
        bad = [e for e in es if e[0] in "X!"]
        new_rx = int(st.split()[0][3:])
        if bad:
            return i, f"frame {fs}: exception escaped frame_received ({bad[0]})"
        k = fs.split(":")
        if k[0] == "D":
            n, r, payload = int(k[1]), int(k[2]), k[4]
            acc = n == rx
            if ups != ([payload] if acc else []):
                return i, f"DATA frmNum {n} with rx_seq {rx}: handed up {ups}, expected {[payload] if acc else []}"
            want_rx = (rx + 1) % 8 if acc else rx
            if new_rx != want_rx:
                return i, f"DATA frmNum {n} with rx_seq {rx}: rx_seq became {new_rx}, expected {want_rx}"
            want = ackw[want_rx] if (acc or r) else nakw[want_rx]
            if wr != [want]:
                return i, f"DATA frmNum {n} reTx {r} with rx_seq {rx}: wrote {wr}, expected exactly one {'ACK' if acc or r else 'NAK'}({want_rx}) = {want}"
            if acc and es != ["W" + want, "U" + payload]:
                return i, f"DATA frmNum {n}: ACK must be written before the payload is handed up, got {es}"
            if rs:
                return i, f"DATA frame caused reset notification {rs}"
            rx = want_rx
        elif k[0] in "KE":
            if ups or wr or rs != [k[2]]:
                return i, f"{fs}: expected exactly one reset notification {k[2]} and nothing else, got {es}"
            if k[0] == "K":
                if not st.startswith("rx=0 tx=0 "):
                    return i, f"RSTACK did not restart numbering: {st}"
                if "treset=1" not in st:
                    return i, f"RSTACK did not restore the ACK timeout: {st}"
                rx = 0
            elif new_rx != rx:
                return i, f"ERROR changed rx_seq"
        else:
            if ups or wr or rs or new_rx != rx:
                return i, f"{fs}: expected no upward delivery, no write, no renumbering; got {es} {st}"
    return None


def run(ctx):
    logging.disable(logging.CRITICAL)
    loop = asyncio.new_event_loop()
    out = ctx.driver([f"c03 wire - A:0:0:{n}" for n in range(8)] + [f"c03 wire - N:0:0:{n}" for n in range(8)])
    if out is None:
        from harness.core import Harness
        raise Harness("driver unavailable: cannot obtain the specification's ACK/NAK bytes")
    ackw = [o.split()[1] for o in out[:8]]
    nakw = [o.split()[1] for o in out[8:]]
    al = alphabet()
    rng = ctx.rng
    cases = []
    L = 2
    for rx in range(8):
        for n in range(1, L + 1):
            for w in itertools.product(al, repeat=n):
                cases.append((rx, 0, 0, (), list(w)))
    n3 = ctx.n(20000, 8 * len(al) ** 3)
    if n3 >= 8 * len(al) ** 3:
        for rx in range(8):
            for w in itertools.product(al, repeat=3):
                cases.append((rx, 0, 0, (), list(w)))
    else:
        for _ in range(n3):
            cases.append((rng.randrange(8), 0, 0, (), [rng.choice(al) for _ in range(3)]))
    # with ack futures installed (what _handle_ack / NAK / ERROR do to them), failed flag, tx_seq
    for _ in range(ctx.n(4000, 40000)):
        pend = tuple(sorted(rng.sample(range(8), rng.randint(0, 3))))
        cases.append((rng.randrange(8), rng.randrange(8), rng.randint(0, 1), pend, [rng.choice(al) for _ in range(rng.randint(1, 6))]))
    # long runs: the frame number wraps many times
    for _ in range(ctx.n(60, 600)):
        rx = rng.randrange(8)
        seq, cur = [], rx
        for _ in range(200):
            t = rng.random()
            if t < 0.6:
                seq.append(f"D:{cur}:{1 if rng.random() < 0.2 else 0}:{rng.randrange(8)}:{rng.choice(['aa', 'aa', f'{rng.getrandbits(16):04x}'])}")
                cur = (cur + 1) % 8
            elif t < 0.75:
                seq.append(f"D:{(cur + rng.randint(1, 7)) % 8}:{rng.randint(0, 1)}:0:ee")
            elif t < 0.8:
                seq.append("K:2:11")
                cur = 0
            else:
                seq.append(rng.choice(al))
                k = seq[-1].split(":")
                if k[0] == "D" and int(k[1]) == cur:
                    cur = (cur + 1) % 8
                if k[0] == "K":
                    cur = 0
        cases.append((rx, 0, 0, (), seq))
    impl = [run_impl(loop, *c) for c in cases]
    loop.close()
    model = ctx.driver([f"c04 run {rx} {tx} {fl} 1 {','.join(f'{n}=w' for n in pend) or '-'} " + " ".join(fr) for rx, tx, fl, pend, fr in cases])
    nontriv = 0
    seen = set()
    for i, (c, tr) in enumerate(zip(cases, impl)):
        rx, tx, fl, pend, fr = c
        ctx.cov["evaluations"] += 1
        key = (rx, tx, fl, pend, tuple(fr))
        acc = any("U" in t.split(";")[0] for t in tr)
        rej = any(f[0] == "D" and "U" not in t.split(";")[0] for f, t in zip(fr, tr))
        if key not in seen:
            seen.add(key)
            if acc and rej:
                nontriv += 1
        ctx.count(f"len:{min(len(fr), 7)}")
        bad = oracle(rx, fr, tr, ackw, nakw)
        if bad:
            k, msg = bad
            ctx.violation(msg, {"kind": "receiver", "frame_class": fr[k][0]},
                          {"rx": rx, "tx": tx, "failed": fl, "pending": list(pend), "frames": fr[: k + 1], "impl": tr[: k + 1]})
        if model is not None and "|".join(tr) != model[i]:
            ctx.corr_diff("frame_received trace differs", {"rx": rx, "tx": tx, "failed": fl, "pending": list(pend), "frames": fr[:8]}, "|".join(tr)[:600], model[i][:600])
        if i % 9000 == 5:
            ctx.sample({"rx": rx, "frames": fr[:6], "impl": tr[:6], "model": model[i][:300] if model else None})
    # ---- several frames in one read: each DATA frame still gets its own answer, in arrival order (through data_received)
    byte_al = [a for a in al if wire_of(a) is not None]
    reads = []
    for rx in range(8):
        for w in itertools.product(byte_al, repeat=2):
            if rng.random() < ctx.n(0.15, 1.0):
                reads.append((rx, list(w)))
    for _ in range(ctx.n(2000, 20000)):
        reads.append((rng.randrange(8), [rng.choice(byte_al) for _ in range(rng.randint(3, 6))]))
    for rx, fr in reads:
        got, rx_after = run_read(rx, fr)
        want, rx_want = expect_read(rx, fr, ackw, nakw)
        ctx.cov["evaluations"] += 1
        ctx.count("frames-in-one-read")
        if got != want or rx_after != rx_want:
            ctx.violation(f"frames {fr} arriving in one read with rx_seq {rx}: events {got} (rx_seq {rx_after}), expected {want} (rx_seq {rx_want}): every DATA frame "
                          f"is answered by its own ACK or NAK, in order", {"kind": "receiver-read"}, {"read": True, "rx": rx, "frames": fr})
    ctx.cov["distinct_nontrivial"] = nontriv
    # long payloads: the link carries up to 256 data bytes in a frame (newer EZSP versions use frames of more than 128 bytes);
    # a long in-sequence frame is a frame like any other (one read each)
    for rx in range(8):
        for ln in (127, 128, 129, 200, 220):
            pay = bytes((7 * i + rx) & 0xFF for i in range(ln)).hex()
            frames = [f"D:{rx}:0:0:{pay}"]
            got, rx_after = run_read(rx, frames)
            want, rx_want = expect_read(rx, frames, ackw, nakw)
            ctx.cov["evaluations"] += 1
            ctx.count("long-payload")
            if got != want or rx_after != rx_want:
                ctx.violation(f"an in-sequence DATA frame with {ln} data bytes arriving with rx_seq {rx}: events {[g[:24] for g in got]} (rx_seq {rx_after}), expected "
                              f"{[w_[:24] for w_ in want]} (rx_seq {rx_want})", {"kind": "one-read", "long": True}, {"read": True, "rx": rx, "frames": frames})
                break
    # an upper layer that raises while it is handed a frame (a payload it cannot make sense of, a handler bug): whatever becomes of
    # the exception, the frame has had its one answer by then - nothing further is written for it, and the next frame is judged
    # by the advanced counter (oracle only)
    for rx in range(8):
        p, log = ashlib.make_proto(rx, 0)
        up = p._ezsp_protocol
        for meth in ("data_received", "reset_received", "error_received"):
            orig = getattr(up, meth)

            def raising(x, orig=orig):
                orig(x)
                raise RuntimeError("the upper layer raised")
            setattr(up, meth, raising)
        frames = [f"D:{rx}:0:0:ee", f"D:{(rx + 1) % 8}:0:0:aa", f"D:{(rx + 1) % 8}:1:0:aa", "K:2:2", "E:2:81"]
        for k, fs in enumerate(frames):
            start = len(log)
            try:
                p.data_received(wire_of(fs))
            except Exception:  # noqa: BLE001  (where it ends up is the transport's business)
                pass
            ctx.cov["evaluations"] += 1
            ctx.count("upper-layer-raises")
            writes = [e for e in log[start:] if e[0] == "W"]
            if k == 3:
                p._rx_seq = p._rx_seq   # (after the RSTACK the counters are zero; nothing to adjust)
            want = 1 if fs[0] == "D" else 0
            if len(writes) != want:
                ctx.violation(f"frame {fs} handed to an upper layer that raises (rx_seq {rx} at the start): {len(writes)} frames written in answer ({writes}), "
                              f"expected exactly {want}", {"kind": "upper-raises"}, {"kind": "upper-raises", "rx": rx})
                break
    ctx.cov["rule"] = (f"two to six frames of the alphabet arriving in ONE read through data_received (all pairs sampled in quick, exhaustive in thorough; random longer reads): the events equal the frame-by-frame rules; every sequence of length 1..2 over a {len(al)}-letter frame alphabet (DATA for all frmNum x reTx x two ackNums, ACK, NAK, RST, RSTACK/ERROR with software/other/undefined codes) "
                       "from each of the 8 rx_seq states (exhaustive); length-3 sequences (sampled in quick, exhaustive in thorough); random sequences with ack futures installed, "
                       "failed flag and tx_seq varied; 200-frame runs wrapping the frame number; non-trivial = distinct case containing an accepted and a rejected DATA frame")
    ctx.exhaustive = True


search = run


def replay(ctx, obj):
    logging.disable(logging.CRITICAL)
    r = obj["replay"]
    if r.get("kind") == "upper-raises":
        before = len(ctx.violations)
        run(ctx)
        bad = [v for v in ctx.violations[before:] if v["key"].get("kind") == "upper-raises"]
        print(f"replay upper layer that raises: {'FAILS: ' + bad[0]['what'] if bad else 'ok'}")
        if bad:
            print(f"VIOLATION property={ctx.pid} replay=replay")
        return 1 if bad else 0
    loop = asyncio.new_event_loop()
    out = ctx.driver([f"c03 wire - A:0:0:{n}" for n in range(8)] + [f"c03 wire - N:0:0:{n}" for n in range(8)])
    ackw = [o.split()[1] for o in out[:8]]
    nakw = [o.split()[1] for o in out[8:]]
    if r.get("read"):
        got, rx_after = run_read(r["rx"], r["frames"])
        want, rx_want = expect_read(r["rx"], r["frames"], ackw, nakw)
        bad = got != want or rx_after != rx_want
        print(f"replay one read rx={r['rx']} frames={r['frames']}: {got}, expected {want}: {'FAILS' if bad else 'ok'}")
        if bad:
            print(f"VIOLATION property={ctx.pid} replay=replay")
        return 1 if bad else 0
    tr = run_impl(loop, r["rx"], r["tx"], r["failed"], tuple(r["pending"]), r["frames"])
    bad = oracle(r["rx"], r["frames"], tr, ackw, nakw)
    print(f"replay rx={r['rx']} frames={r['frames']}: {tr}: {'FAILS: ' + bad[1] if bad else 'ok'}")
    if bad:
        print(f"VIOLATION property={ctx.pid} replay=replay")
    return 1 if bad else 0
