"""C10 — failure at any moment: the real EZSP + Gateway + AshProtocol against the byte-level simulated
NCP; a scripted workload; each failure kind injected at each workload point, alone and batched in one
loop iteration with the preceding wire event; oracle on the application callback, the wire and the
virtual clock; correspondence of the EZSP-level reaction with the Lean failure model."""
import asyncio
import logging

from harness import ashlib, fullstack
from harness.ashlib import hx

FAILS = ["error", "error_unnamed", "rstack_poweron", "rstack_unknown", "rstack_unnamed", "silent", "silent_xoff", "chatty", "lost_exc", "eof", "close"]
POINTS = ["idle", "inflight", "awaiting", "queued", "resetting", "abandoned"]


def scenario(n, fail, point, attached, batched, second=None, history=None):
    import bellows.ezsp.protocol as proto
    import bellows.ash as ash

    w = fullstack.World(n)
    out = {"requests": [], "results": {}, "after": None}
    bound = proto.EZSP_CMD_TIMEOUT + ash.ACK_TIMEOUTS * ash.T_RX_ACK_MAX + 5.0 + 1e-6
    try:
        async def go():
            await w.ezsp.connect(use_thread=False)
            await w.ezsp.startup_reset()
            loop = asyncio.get_running_loop()
            if history == "churn":
                # earlier life of the same EZSP object: a listener registered and removed again, a scan that registers its own
                # temporary callback and ends later; the application attaches in between.  None of this may detach the application.
                import bellows.types as t

                lid = w.ezsp.add_callback(lambda name, args: None)

                async def scan():
                    try:
                        await w.ezsp.startScan(t.EzspNetworkScanType.ENERGY_SCAN, 0x07FFF800, 2)
                        out["results"]["scan"] = ("ok", 0.0)
                    except BaseException as e:  # noqa: BLE001
                        out["results"]["scan"] = (type(e).__name__, 0.0)

                scan_task = loop.create_task(scan())
                await asyncio.sleep(0.05)
                w.ezsp.remove_callback(lid)
            if attached:
                w.ezsp.add_callback(lambda name, args: out["requests"].append((name, args)) if name == "_reset_controller_application" else None)
            if history == "churn":
                w.ncp.callback("scanCompleteHandler", channel=0, status=0)
                await asyncio.sleep(0.05)
                if not scan_task.done():
                    scan_task.cancel()
                await asyncio.sleep(0.01)
                out["results"].pop("scan", None)

            async def call(tag, coro):
                t0 = loop.time()
                try:
                    await coro
                    out["results"][tag] = ("ok", loop.time() - t0)
                except asyncio.CancelledError:
                    out["results"][tag] = ("cancelled", loop.time() - t0)
                    raise
                except BaseException as e:
                    out["results"][tag] = (type(e).__name__, loop.time() - t0)

            tasks = []
            # ---- bring the workload to the chosen point
            if point == "inflight":
                w.ncp.silent = True  # the request is on the wire, unacknowledged
                tasks.append(loop.create_task(call("c1", w.ezsp.getEui64())))
                await asyncio.sleep(0.05)
                if fail != "silent":
                    w.ncp.silent = False
            elif point == "abandoned":
                # the request is on the wire, unacknowledged, and its caller gives up long before the link does
                w.ncp.silent = True
                tasks.append(loop.create_task(call("c1", w.ezsp.getEui64())))
                await asyncio.sleep(4.0)
                tasks[0].cancel()
                await asyncio.sleep(0.05)
                if fail != "silent":
                    w.ncp.silent = False
            elif point == "awaiting":
                w.ncp.handlers["getEui64"] = lambda name, args: None  # ACKed, never answered
                tasks.append(loop.create_task(call("c1", w.ezsp.getEui64())))
                await asyncio.sleep(0.05)
            elif point == "queued":
                w.ncp.handlers["getEui64"] = lambda name, args: None
                tasks.append(loop.create_task(call("c1", w.ezsp.getEui64())))
                tasks.append(loop.create_task(call("c2", w.ezsp.nop())))
                tasks.append(loop.create_task(call("c3", w.ezsp.getNodeId())))
                await asyncio.sleep(0.05)
            elif point == "resetting":
                w.ncp.silent = True
                tasks.append(loop.create_task(call("reset", w.ezsp.reset())))
                await asyncio.sleep(0.05)
            elif point == "leaving":
                # leaveNetwork() was answered and waits for the stack-status callback
                tasks.append(loop.create_task(call("c1", w.ezsp.leaveNetwork())))
                await asyncio.sleep(0.05)
            out["t_fail"] = loop.time()
            out["wire_before"] = len([1 for d, _ in w.wire_log if d == "h2n"])
            # ---- inject the failure
            pre = []
            if batched and point in ("awaiting", "queued", "idle"):
                # a harmless wire event (an ACK) lands in the same loop iteration, just before the failure
                pre = [(w.protocol.data_received, ashlib.spec_wire("A", ack=w.protocol._tx_seq))]
            if batched and point == "leaving":
                # the awaited stack-status callback arrives, and the failure is the very next thing the loop runs (for the wire
                # failures: the next frame of the same read) - the waiter is resolved but has not run yet
                import bellows.types as t
                w.ncp.callback("stackStatusHandler", status=int(t.sl_Status.NETWORK_DOWN if n >= 14 else t.EmberStatus.NETWORK_DOWN))
                pre = [(w.protocol.data_received, w.ncp.out.pop())]
            if fail == "error":
                cbs = pre + [(w.protocol.data_received, ashlib.spec_wire("E", code=0x51))]
            elif fail == "error_unnamed":
                # a failure code the library has no name for (newer firmware, chip specific): an NCP failure like any other
                cbs = pre + [(w.protocol.data_received, ashlib.spec_wire("E", code=0x81))]
            elif fail == "rstack_unnamed":
                cbs = pre + [(w.protocol.data_received, ashlib.spec_wire("K", code=0x0C))]
            elif fail == "rstack_poweron":
                cbs = pre + [(w.protocol.data_received, ashlib.spec_wire("K", code=0x02))]
            elif fail == "rstack_unknown":
                # the NCP reset for a reason it does not know (code 0x00): not the software reset the host may have asked for
                cbs = pre + [(w.protocol.data_received, ashlib.spec_wire("K", code=0x00))]
            elif fail in ("silent", "silent_xoff", "chatty"):
                w.ncp.silent = True
                cbs = []
                if fail == "silent_xoff":
                    # the last thing the NCP says before it goes quiet is the in-band "hold off" byte (XOFF): a silent NCP all the same
                    cbs = [(w.protocol.data_received, b"\x13")]
                if point == "idle":
                    tasks.append(loop.create_task(call("c1", w.ezsp.getEui64())))
                if fail == "chatty":
                    # the NCP no longer takes anything in (nothing is acknowledged any more) but keeps talking: a callback every
                    # 0.3 s, each an in-sequence DATA frame with a stale acknowledgement number
                    def chatter(k=0):
                        if k < 400 and not w.closed:
                            w.ncp.callback("stackStatusHandler", status=0x90)
                            w.pump()
                            loop.call_later(0.3, chatter, k + 1)

                    loop.call_later(0.3, chatter)
            elif fail == "lost_exc":
                cbs = pre + [(w.protocol.connection_lost, ConnectionResetError("unplugged"))]
            elif fail == "eof":
                cbs = pre + [(w.protocol.eof_received,)]
            elif fail == "close":
                w.ezsp.close()
                cbs = [(w.protocol.connection_lost, None)]
            if len(cbs) == 2 and cbs[0][0] == cbs[1][0] == w.protocol.data_received and point == "leaving":
                cbs = [(w.protocol.data_received, cbs[0][1] + cbs[1][1])]   # one read
            for cb in cbs:
                loop.call_soon(*cb)
            await asyncio.sleep(0.01)
            # ---- let everything that was in progress end
            for _ in range(200):
                if all(t.done() for t in tasks) and (fail not in ("silent", "silent_xoff", "chatty") or not w.ezsp.is_ezsp_running or not attached):
                    break
                await asyncio.sleep(1.0)
            if fail in ("silent", "silent_xoff", "chatty") and w.ezsp.is_ezsp_running and point != "abandoned":
                # silence is only noticed when something is sent: the next command (e.g. the watchdog's) finds out
                t = loop.create_task(call("probe", w.ezsp.nop()))
                tasks.append(t)
                for _ in range(60):
                    if t.done():
                        break
                    await asyncio.sleep(1.0)
            if second:
                # the first failure came before any application was attached (and was ignored); now one attaches,
                # and the NCP fails again: this one must be reported
                w.ezsp.add_callback(lambda name, args: out["requests"].append((name, args)) if name == "_reset_controller_application" else None)
                if second == "error":
                    loop.call_soon(w.protocol.data_received, ashlib.spec_wire("E", code=0x51))
                elif second == "rstack_poweron":
                    loop.call_soon(w.protocol.data_received, ashlib.spec_wire("K", code=0x02))
                elif second == "eof":
                    loop.call_soon(w.protocol.eof_received)
                await asyncio.sleep(0.01)
                for _ in range(60):
                    if all(t.done() for t in tasks):
                        break
                    await asyncio.sleep(1.0)
            out["hung"] = [i for i, t in enumerate(tasks) if not t.done()]
            for t in tasks:
                if not t.done():
                    t.cancel()
            out["running_after"] = w.ezsp.is_ezsp_running
            out["gw_after"] = w.ezsp._gw is not None
            # ---- afterwards: a new command
            wire_n = len([1 for d, _ in w.wire_log if d == "h2n"])
            t0 = loop.time()
            try:
                await w.ezsp.nop()
                out["after"] = ("ok", loop.time() - t0)
            except BaseException as e:
                out["after"] = (type(e).__name__, loop.time() - t0)
            out["after_wrote"] = len([1 for d, _ in w.wire_log if d == "h2n"]) - wire_n
            if point == "resetting" and fail in ("silent", "silent_xoff") and w.ezsp._gw is not None:
                # the reset against the silent NCP has timed out; the NCP comes back and the host tries the reset again on the same
                # connection: a request like the first one - RST goes out, the acknowledgement completes it
                w.ncp.silent = False
                wire_n = len([1 for d, _ in w.wire_log if d == "h2n"])
                t0 = loop.time()
                try:
                    await asyncio.wait_for(w.ezsp.reset(), 60)
                    out["retry_reset"] = ("ok", loop.time() - t0, len([1 for d, _ in w.wire_log if d == "h2n"]) - wire_n)
                except BaseException as e:  # noqa: BLE001
                    out["retry_reset"] = (type(e).__name__, loop.time() - t0, len([1 for d, _ in w.wire_log if d == "h2n"]) - wire_n)
            return True

        res = w.run(go(), max_time=600.0, max_steps=20000)
        out["run"] = res[0] if res[0] != "raised" else f"raised:{type(res[1]).__name__}:{res[1]}"
        out["bound"] = bound
    finally:
        w.close()
    return out


def oracle(fail, point, attached, o, second=None):
    if second:
        attached = True
        fail = f"{second} after an unreported {fail}"
    if o["run"] != "ok":
        return f"scenario did not run to completion: {o['run']}"
    reqs = len(o["requests"])
    if fail == "close":
        if reqs:
            return f"a deliberate close produced {reqs} controller-reset request(s)"
        return None
    if fail in ("silent", "silent_xoff", "chatty") and point == "resetting":
        # the application's own reset() call is what fails here (TimeoutError); nothing else is in progress
        r = o["results"].get("reset")
        if r is None or r[0] == "ok":
            return f"reset against a silent NCP did not raise: {r}"
        rr = o.get("retry_reset")
        if rr is not None and rr[0] != "ok":
            return (f"after a reset that timed out against a silent NCP, a new reset on the same connection - the NCP answering again - did not complete: "
                    f"{rr[0]} after {rr[1]:.1f}s, {rr[2]} chunk(s) written")
        return None
    if attached:
        if reqs != 1:
            return f"{fail} at '{point}': the application received {reqs} controller-reset requests, expected exactly one"
        if o["running_after"]:
            return f"{fail} at '{point}': EZSP is still marked running after the failure"
        if o["after"][0] != "EzspError" or o["after"][1] > 1e-9:
            return f"{fail} at '{point}': a new command did not raise immediately: {o['after']}"
        if o["after_wrote"]:
            return f"{fail} at '{point}': a new command wrote {o['after_wrote']} chunk(s) to the port after the failure"
    else:
        if reqs:
            return "a controller-reset request although no application callback is registered"
    if o["hung"]:
        return f"{fail} at '{point}': calls still pending after the failure: {o['hung']}"
    for tag, (res, dt) in o["results"].items():
        if res == "cancelled":
            continue
        if dt > o["bound"] + (o["t_fail"] if False else 0):
            return f"{fail} at '{point}': call {tag} took {dt:.2f}s, more than the command + link timeouts ({o['bound']:.1f}s)"
        if attached and res == "ok" and fail in ("lost_exc", "eof") and tag != "reset" and point not in ("idle", "leaving"):
            return f"{fail} at '{point}': call {tag} reported success after the connection was lost"
    return None


def cases(ctx):
    cs = []
    for n in ([8] if ctx.tier == "quick" else [4, 7, 8, 13, 14]):
        for fail in FAILS:
            for point in POINTS:
                for attached in (True, False):
                    for batched in (False, True):
                        if batched and fail in ("silent", "silent_xoff", "chatty", "close"):
                            continue
                        cs.append((n, fail, point, attached, batched))
    # a network operation waiting for its stack-status callback: the failure while it waits, and right behind the callback
    for n in ([8] if ctx.tier == "quick" else [4, 8, 13, 14]):
        for fail in ("error", "rstack_poweron", "rstack_unknown", "lost_exc", "eof"):
            for attached in (True, False):
                for batched in (False, True):
                    cs.append((n, fail, "leaving", attached, batched))
    # the same failures after an earlier life of the EZSP object (callbacks registered and removed, a scan with its own temporary
    # callback running while the application attaches)
    for n in ([8] if ctx.tier == "quick" else [4, 8, 14]):
        for fail in ("error", "rstack_poweron", "silent", "lost_exc", "eof"):
            for point in ("idle", "awaiting"):
                cs.append((n, fail, point, True, False, None, "churn"))
    # a first failure while no application is attached, then an application attaches and the NCP fails again
    for n in ([8] if ctx.tier == "quick" else [4, 8, 14]):
        for fail in ("error", "rstack_poweron", "silent"):
            for point in ("idle", "awaiting"):
                for second in ("error", "rstack_poweron", "eof"):
                    cs.append((n, fail, point, False, False, second))
    return cs


EVENT_OF = {"error": "fail81", "error_unnamed": "fail129", "rstack_unnamed": "fail12", "rstack_poweron": "fail2", "rstack_unknown": "fail0", "silent": "fail81", "silent_xoff": "fail81", "chatty": "fail81", "lost_exc": "lost", "eof": "lost"}


def run(ctx):
    logging.disable(logging.CRITICAL)
    cs = cases(ctx)
    outs = [scenario(*c) for c in cs]
    lines = []
    for c in cs:
        (n, fail, point, attached, batched), second = c[:5], (c[5] if len(c) > 5 else None)
        pre = "close " if point == "resetting" else ""   # `reset()` begins with stop_ezsp(): EZSP is not running meanwhile
        if fail == "close":
            lines.append(f"c10 run {2 if attached else 1} close quiet cmd")
        else:
            lines.append(f"c10 run {2 if attached else 1} {'stop ' if point == 'resetting' else ''}{EVENT_OF[fail]} cmd")
    model = ctx.driver(lines)
    for i, (c, o) in enumerate(zip(cs, outs)):
        (n, fail, point, attached, batched), second = c[:5], (c[5] if len(c) > 5 else None)
        ctx.cov["evaluations"] += 1
        ctx.cov["distinct_nontrivial"] += 1
        ctx.count(f"fail:{fail}")
        ctx.count(f"point:{point}")
        for tag, (res, dt) in o.get("results", {}).items():
            ctx.count(f"call_outcome:{res}")
        history = c[6] if len(c) > 6 else None
        bad = oracle(fail, point, attached, o, second)
        if bad and history:
            bad += " (after callbacks were registered and removed and a scan's temporary callback ended: the application must stay attached)"
        if bad:
            ctx.violation(bad, {"kind": "failure-handling", "fail": fail, "point": point}, {"n": n, "fail": fail, "point": point, "attached": attached, "batched": batched, "second": second, "history": history})
        if history:
            ctx.count(f"history:{history}")
        if second:
            ctx.count(f"second:{second}")
            continue
        if model is not None and o["run"] == "ok":
            steps = model[i].split("|")
            mreq = sum(s.split(";")[0].split(",").count("REQ") for s in steps)
            last = steps[-1]
            m_after = "EzspError" if "RAISED" in last else "sent"
            i_after = "EzspError" if o["after"][0] == "EzspError" else "sent"
            # without an application attached the silent link still fails commands at the ASH layer
            if fail in ("silent", "silent_xoff", "chatty") and point == "resetting":
                continue
            if mreq != len(o["requests"]) or (m_after != i_after and not (m_after == "sent" and fail in ("silent", "silent_xoff", "chatty", "lost_exc", "eof", "error", "error_unnamed") and not attached)):
                ctx.corr_diff(f"EZSP failure reaction differs ({fail} at {point})", {"case": list(map(str, c))},
                              f"requests={len(o['requests'])} after={o['after']} running={o['running_after']}", model[i])
        if i % 25 == 0:
            ctx.sample({"case": list(map(str, c)), "requests": len(o["requests"]), "results": {k: [v[0], round(v[1], 3)] for k, v in o.get("results", {}).items()}, "after": o.get("after")})
    ctx.cov["rule"] = ("failure kinds {ERROR frame, power-on RSTACK, RSTACK with the unknown-reason code 0x00, NCP stops acknowledging, NCP stops acknowledging but keeps sending callbacks every 0.3 s, connection lost with error, EOF, deliberate close} x workload points {idle, request unacknowledged, "
                       "acknowledged but unanswered, three commands queued, reset in progress, request unacknowledged and abandoned by its caller after 4 s (no later probe)} x {application attached, not attached} x {failure alone, batched with an ACK in one loop iteration}, "
                       "NCP version 8 (4, 7, 8, 13, 14 thorough); plus: a first failure {ERROR, power-on RSTACK, silence} while no application is attached, then an application attaches and the NCP fails again "
                       "{ERROR, power-on RSTACK, EOF}: that failure must be reported; full real stack on the virtual clock")
    ctx.exhaustive = True


search = run


def replay(ctx, obj):
    logging.disable(logging.CRITICAL)
    r = obj["replay"]
    o = scenario(r["n"], r["fail"], r["point"], r["attached"], r["batched"], r.get("second"), r.get("history"))
    bad = oracle(r["fail"], r["point"], r["attached"], o, r.get("second"))
    print(f"replay {r}: requests={len(o['requests'])} results={o.get('results')} after={o.get('after')}: {'FAILS: ' + bad if bad else 'ok'}")
    if bad:
        print(f"VIOLATION property={ctx.pid} replay=replay")
    return 1 if bad else 0
