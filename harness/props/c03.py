"""C03 — ASH frame layout: real to_bytes/parse_frame/_stuff_bytes/_unstuff_bytes/_write_frame/crc_hqx
versus the Lean model (correspondence) and the independent Lean spec encoder/decoder (oracle)."""
import binascii
import itertools
import logging

from harness import ashlib
from harness.ashlib import hx, unhx, frame_str


def impl_parse(data: bytes):
    import bellows.ash as ash

    try:
        f = ash.parse_frame(data)
    except (ash.ParsingError, IndexError, AssertionError):
        return "err"
    except Exception as e:
        return f"raised:{type(e).__name__}"
    return frame_str(f)


def impl_unstuff(data: bytes):
    import bellows.ash as ash

    try:
        return hx(ash.AshProtocol._unstuff_bytes(data))
    except ash.ParsingError:
        return "err"
    except Exception as e:
        return f"raised:{type(e).__name__}"


def all_frames(ctx, maxlen):
    """frame strings: every control-field value of every class; payload kinds x lengths"""
    rng = ctx.rng
    out = []
    lens = sorted(set(list(range(0, 20)) + [31, 32, 33, 63, 64, 100, 127, 128, 129, 200, 255, 256][: 12 if maxlen >= 256 else 9] + [maxlen]))
    lens = [l for l in lens if l <= maxlen]
    for f in range(8):
        for r in (0, 1):
            for a in range(8):
                for kind in ("rand", "res", "zero"):
                    l = rng.choice(lens)
                    if kind == "rand":
                        p = bytes(rng.getrandbits(8) for _ in range(l))
                    elif kind == "res":
                        p = bytes(rng.choice([0x7E, 0x7D, 0x11, 0x13, 0x18, 0x1A]) for _ in range(l))
                    else:
                        p = bytes(l)
                    out.append(f"D:{f}:{r}:{a}:{hx(p)}")
    for l in lens:  # every length once with each payload kind, fixed fields
        out.append(f"D:3:0:5:{hx(bytes(rng.getrandbits(8) for _ in range(l)))}")
        out.append(f"D:7:1:0:{hx(bytes([0x7E, 0x7D, 0x11, 0x13, 0x18, 0x1A] * (l // 6 + 1))[:l])}")
    for k in "AN":
        for s in (0, 1):
            for n in (0, 1):
                for a in range(8):
                    out.append(f"{k}:{s}:{n}:{a}")
    out.append("R")
    for c in range(256):
        out.append(f"K:2:{c}")
        out.append(f"E:2:{c}")
    return out


def run(ctx):
    logging.disable(logging.CRITICAL)
    import bellows.ash as ash

    lines = []  # (kind, case, impl, oracle_kind)
    # ---- 1. encode / wire / round trip on structured frames
    frames = all_frames(ctx, 256)
    for fs in frames:
        f = ashlib.mk_frame(fs)
        try:
            raw = f.to_bytes()
            p, log = ashlib.make_proto()
            pre = (ash.Reserved.CANCEL,) if fs[0] in "RN" else ()
            p._write_frame(f, prefix=pre)
            wire = unhx(log[-1][1:])
            impl = f"{hx(raw)} {hx(wire)} {impl_parse(raw)}"
        except Exception as e:
            impl = f"raised:{type(e).__name__}"
        lines.append(("frame", fs, impl))
    # ---- 1b. sequences of writes through ONE protocol object: what a frame looks like on the wire does not depend on
    # what was written before (a retransmission carries a fresh ackNum; frames of several kinds alternate)
    rng0 = ctx.rng
    import types as _types
    for _ in range(ctx.n(400, 4000)):
        p, log = ashlib.make_proto()
        # ... nor on what kind of port the transport sits on: a serial object that advertises hardware flow control, software flow
        # control, neither - or no serial object at all (a socket); the reserved bytes are escaped all the same
        port = rng0.choice(["none", "none", "rtscts", "xonxoff", "neither"])
        ctx.count("port:" + port)
        if port != "none":
            tr = ashlib.Transport(log)
            tr.serial = _types.SimpleNamespace(rtscts=port == "rtscts", xonxoff=port == "xonxoff", dsrdtr=False, port="/dev/ttyUSB0", baudrate=115200)
            try:
                p.connection_made(tr)
            except Exception:  # noqa: BLE001
                pass
        frm = rng0.randrange(8)
        pay = bytes(rng0.choice([0x7E, 0x7D, 0x11, 0x13, 0x18, 0x1A, 0x00, 0xFF, rng0.getrandbits(8)]) for _ in range(rng0.randint(0, 6)))
        seq = []
        for k in range(rng0.randint(2, 6)):
            t = rng0.random()
            if t < 0.6:   # (re)transmission of the same DATA frame with whatever ackNum is current
                seq.append(f"D:{frm}:{1 if k else 0}:{rng0.randrange(8)}:{hx(pay)}")
            elif t < 0.75:
                seq.append(f"A:0:0:{rng0.randrange(8)}")
            elif t < 0.85:
                seq.append(f"N:0:0:{rng0.randrange(8)}")
            else:
                frm = (frm + 1) % 8
                pay = bytes(rng0.getrandbits(8) for _ in range(rng0.randint(0, 6)))
                seq.append(f"D:{frm}:0:{rng0.randrange(8)}:{hx(pay)}")
        for k, fs in enumerate(seq):
            f = ashlib.mk_frame(fs)
            try:
                n0 = len(log)
                p._write_frame(f, prefix=(ash.Reserved.CANCEL,) if fs[0] in "RN" else ())
                impl = f"{hx(f.to_bytes())} {log[n0][1:]} {impl_parse(f.to_bytes())}"
            except Exception as e:
                impl = f"raised:{type(e).__name__}"
            lines.append(("frame", fs, impl) if k == 0 else ("frame", fs, impl, seq[:k]))
    # ---- 2. exhaustive finite functions
    for c in range(256):
        lines.append(("stuff1", c, hx(ash.AshProtocol._stuff_bytes(bytes([c])))))
    for a in range(256):
        for b in range(256):
            lines.append(("unstuff2", (a, b), impl_unstuff(bytes([a, b]))))
    for c in range(256):  # classification and per-class checks
        for body in (b"", b"\x02\x0b", b"\x01\x0b", b"\x02", b"\x01\x02\x03"):
            d = ash.AshFrame.append_crc(bytes([c]) + body)
            lines.append(("parse", hx(d), impl_parse(d)))
        lines.append(("parse", hx(bytes([c])), impl_parse(bytes([c]))))
        lines.append(("parse", hx(bytes([c, 1, 2])), impl_parse(bytes([c, 1, 2]))))
    lines.append(("parse", "-", impl_parse(b"")))
    # ---- 3. random: stuffing of strings, unstuffing of strings, crc, parse of mutated frames
    rng = ctx.rng
    for _ in range(ctx.n(1500, 20000)):
        l = rng.randint(0, 40)
        s = bytes(rng.choice([0x7E, 0x7D, 0x11, 0x13, 0x18, 0x1A, 0x5E, 0x5D, 0x31, 0x33, 0x38, 0x3A, rng.getrandbits(8)]) for _ in range(l))
        lines.append(("stuff", hx(s), hx(ash.AshProtocol._stuff_bytes(s))))
        lines.append(("unstuff", hx(s), impl_unstuff(s)))
        lines.append(("crc", hx(s), binascii.crc_hqx(s, 0xFFFF).to_bytes(2, "big").hex()))
    for _ in range(ctx.n(3000, 40000)):
        fs = rng.choice(frames)
        raw = bytearray(ashlib.mk_frame(fs).to_bytes())
        m = rng.randint(0, 4)
        if m == 0 and raw:
            raw[rng.randrange(len(raw))] ^= 1 << rng.randrange(8)
        elif m == 1:
            raw = raw[: rng.randint(0, len(raw))]
        elif m == 2:
            raw += bytes(rng.getrandbits(8) for _ in range(rng.randint(1, 3)))
        elif m == 3:  # re-CRC a body with a substituted control byte / extra data: valid CRC, odd content
            body = bytearray(raw[:-2])
            if body:
                body[0] = rng.getrandbits(8)
            if rng.random() < 0.3:
                body += bytes(rng.getrandbits(8) for _ in range(rng.choice([1, 2, 255, 256, 257])))
            raw = bytearray(ash.AshFrame.append_crc(bytes(body)))
        lines.append(("parse", hx(raw), impl_parse(bytes(raw))))
    # ---- 4. 1- and 2-bit corruptions of short valid frames must be rejected (oracle only, on the real parser)
    short = ["A:0:0:3", "N:0:1:7", "R", "K:2:11", "E:2:81", "D:2:0:5:-", "D:5:1:1:00", "D:0:0:0:7e7d", "D:1:1:6:112233"]
    if ctx.tier == "thorough":
        short += ["D:4:0:2:" + hx(bytes(rng.getrandbits(8) for _ in range(l))) for l in (8, 16, 24, 32)]
    nflip = 0
    for fs in short:
        raw = ashlib.mk_frame(fs).to_bytes()
        nb = len(raw) * 8
        for i in range(nb):
            for j in range(i, nb):
                d = bytearray(raw)
                d[i // 8] ^= 0x80 >> (i % 8)
                if j != i:
                    d[j // 8] ^= 0x80 >> (j % 8)
                got = impl_parse(bytes(d))
                nflip += 1
                if got != "err":
                    ctx.violation(
                        f"frame {fs} with bits {i},{j} flipped is accepted by parse_frame as {got}",
                        {"kind": "bitflip-accepted", "frame": fs},
                        {"kind": "bitflip", "frame": fs, "bits": [i, j], "bytes": hx(d), "impl": got},
                    )
    ctx.count("bitflip_corruptions_checked", nflip)

    # ---- driver
    dl = []
    for kind, case, impl, *hist in lines:
        if kind == "frame":
            dl += [f"c03 enc {case}", f"c03 spec {case}", f"c03 wire {'1a' if case[0] in 'RN' else '-'} {case}"]
        elif kind == "stuff1":
            dl.append(f"c03 stuff {case:02x}")
        elif kind == "unstuff2":
            dl.append(f"c03 unstuff {case[0]:02x}{case[1]:02x}")
        elif kind in ("stuff", "unstuff", "crc", "parse"):
            dl.append(f"c03 {kind} {case}")
    out = ctx.driver(dl)
    k = 0
    seen = set()
    for kind, case, impl, *hist in lines:
        ctx.cov["evaluations"] += 1
        ctx.count(f"kind:{kind}")
        key = (kind, str(case))
        if key not in seen:
            seen.add(key)
            ctx.cov["distinct_nontrivial"] += 1
        if out is None:
            continue
        if kind == "frame":
            enc, spec, wire = out[k], out[k + 1], out[k + 2]
            k += 3
            mw, sw = wire.split(" ")
            model = f"{enc} {mw} {case}"
            want = f"{spec} {sw} {case}"
            if impl != want:
                ctx.violation(
                    f"frame {case}: implementation bytes/wire/round-trip {impl} differ from the specification's {want}",
                    {"kind": "layout", "frame_class": case[0]},
                    {"kind": "frame", "frame": case, "impl": impl, "spec": want, "written_before": hist[0] if hist else []},
                )
            if impl != model:
                ctx.corr_diff(f"encode/wire/parse of {case}", case, impl, model)
            if len(ctx.cov["samples"]) < 3 and case[0] == "D" and len(case) > 20:
                ctx.sample({"frame": case, "impl": impl, "model": model, "spec": want})
        else:
            o = out[k]
            k += 1
            if kind == "crc":
                m, s = o.split(" ")
                s = f"{int(s):04x}"
            else:
                m, s = o.split(" ")
            if kind == "parse":
                m = "err" if m.startswith("err") else m
                ctx.count("parse:" + ("err" if impl == "err" else "ok"))
            if impl != s:
                ctx.violation(
                    f"{kind} of {case}: implementation gives {impl}, the specification {s}",
                    {"kind": kind},
                    {"kind": kind, "case": case, "impl": impl, "spec": s},
                )
            if impl != m:
                ctx.corr_diff(f"{kind} of {case}", case, impl, m)
    ctx.cov["rule"] = ("sequences of 2..6 writes through one protocol object (retransmissions of a DATA frame with changing ackNum, interleaved ACK/NAK, the next DATA frame); every control-field value of every frame class with random / all-reserved / all-zero payloads of lengths 0..256, all 256 reset codes; "
                       "stuffing of every byte, unstuffing of every byte pair, classification of every control byte with five bodies (exhaustive); random strings for "
                       "stuffing/unstuffing/CRC; parse of bit-flipped, truncated, extended and re-CRC'd frames; every 1- and 2-bit corruption of nine short frames on the real parser. "
                       "distinct = distinct (kind, input); all are non-trivial (each reaches the codec)")
    ctx.exhaustive = True


search = run


def replay(ctx, obj):
    logging.disable(logging.CRITICAL)
    import bellows.ash as ash

    r = obj["replay"]
    bad = None
    if r["kind"] == "bitflip":
        got = impl_parse(unhx(r["bytes"]))
        bad = None if got == "err" else f"corrupted frame accepted as {got}"
    elif r["kind"] == "frame":
        f = ashlib.mk_frame(r["frame"])
        raw = f.to_bytes()
        p, log = ashlib.make_proto()
        for prev in r.get("written_before", []):
            p._write_frame(ashlib.mk_frame(prev), prefix=(ash.Reserved.CANCEL,) if prev[0] in "RN" else ())
        p._write_frame(f, prefix=(ash.Reserved.CANCEL,) if r["frame"][0] in "RN" else ())
        impl = f"{hx(raw)} {log[-1][1:]} {impl_parse(raw)}"
        bad = None if impl == r["spec"] else f"{impl} != spec {r['spec']}"
    else:
        case = r["case"]
        fn = {"stuff": lambda b: hx(ash.AshProtocol._stuff_bytes(b)), "stuff1": lambda b: hx(ash.AshProtocol._stuff_bytes(b)),
              "unstuff": impl_unstuff, "unstuff2": impl_unstuff, "parse": impl_parse,
              "crc": lambda b: binascii.crc_hqx(b, 0xFFFF).to_bytes(2, "big").hex()}[r["kind"]]
        if isinstance(case, int):
            data = bytes([case])
        elif isinstance(case, list):
            data = bytes(case)
        else:
            data = unhx(case)
        got = fn(data)
        bad = None if got == r["spec"] else f"{got} != spec {r['spec']}"
    print(f"replay {r}: {'FAILS: ' + bad if bad else 'ok'}")
    if bad:
        print(f"VIOLATION property={ctx.pid} replay=replay")
    return 1 if bad else 0
