"""C11 — reset handshake: the real Gateway + AshProtocol on the deterministic loop, primitives batched per
loop iteration, versus the Lean model (correspondence) and the property's statements (oracle)."""
import asyncio
import itertools
import logging

from harness import ashlib, vloop
from harness.ashlib import hx


class App:
    def __init__(self, log):
        self.log = log

    def frame_received(self, data):
        self.log.append("U" + hx(data))

    def enter_failed_state(self, code):
        self.log.append(f"EF{int(code)}")

    def connection_lost(self, exc):
        self.log.append("AL")


class World:
    def __init__(self, tx0, rx0):
        import bellows.ash as ash
        import bellows.uart as uart

        self.ash = ash
        self.loop = vloop.VLoop().install()
        ash.time.monotonic = self.loop.time
        self.log = []
        self.app = App(self.log)
        self.done_fut = self.loop.create_future()
        self.done_fut.add_done_callback(lambda f: self.log.append(f"CD{int(f.result() is not None)}"))
        self.gw = uart.Gateway(self.app, None, self.done_fut)
        self.p = ash.AshProtocol(self.gw)
        self.tr = ashlib.Transport(self.log)
        self.p.connection_made(self.tr)
        self.p._tx_seq, self.p._rx_seq = tx0, rx0
        self.tasks = {}
        self.events = []
        self.times = []   # virtual time after each event

    def close(self):
        self.loop.shutdown()

    async def _reset(self, c):
        ash = self.ash
        try:
            await self.gw.reset()
            self.log.append(f"RD{c}:ok")
        except asyncio.TimeoutError:
            self.log.append(f"RD{c}:timeout")
        except asyncio.CancelledError:
            self.log.append(f"RD{c}:cancelled")
        except ash.NcpFailure:
            self.log.append(f"RD{c}:ncpfail")
        except ConnectionError:
            self.log.append(f"RD{c}:connerr")
        except Exception as e:
            self.log.append(f"RD{c}:!{type(e).__name__}")

    async def _startup(self, c):
        try:
            await self.gw.wait_for_startup_reset()
            self.log.append(f"SD{c}:ok")
        except asyncio.CancelledError:
            self.log.append(f"SD{c}:cancelled")
        except ConnectionError:
            self.log.append(f"SD{c}:connerr")
        except Exception as e:
            self.log.append(f"SD{c}:!{type(e).__name__}")

    def _guard(self, fn, *a):
        def run():
            try:
                fn(*a)
            except asyncio.InvalidStateError:
                self.log.append("ISE")
            except self.ash.NcpFailure:
                self.log.append("NF")
            except Exception as e:
                self.log.append(f"!{type(e).__name__}")

        return (run,)

    def do(self, batch):
        # canonical order inside one iteration: I/O callbacks first, the timer last (as the loop runs them)
        start = len(self.log)
        cbs = []
        timer = False
        for pr in batch.split("+"):
            if pr.startswith("R="):
                c = int(pr[2:])
                cbs.append((lambda c=c: self.tasks.__setitem__(c, self.loop.create_task(self._reset(c))),))
            elif pr.startswith("S="):
                c = int(pr[2:])
                cbs.append((lambda c=c: self.tasks.__setitem__(c, self.loop.create_task(self._startup(c))),))
            elif pr.startswith("F="):
                fp = pr[2:].split(":")
                if fp[0] in "KE" and fp[1] == "2":
                    # reset / error frames arrive as bytes (independent encoder): every one of the 256 codes is a legal frame,
                    # whether or not the library has a name for it
                    cbs.append(self._guard(self.p.data_received, ashlib.spec_wire(fp[0], code=int(fp[2]))))
                else:
                    cbs.append(self._guard(self.p.frame_received, ashlib.mk_frame(pr[2:])))
            elif pr == "L1":
                cbs.append(self._guard(self.p.connection_lost, ConnectionResetError("gone")))
            elif pr == "L0":
                cbs.append(self._guard(self.p.connection_lost, None))
            elif pr == "E":
                cbs.append(self._guard(self.p.eof_received))
            elif pr.startswith("C="):
                # the caller of a reset / start-up wait gives up (its task is cancelled)
                tk = self.tasks.get(int(pr[2:]))
                if tk is not None and not tk.done():
                    cbs.append((tk.cancel,))
            elif pr == "Q":
                # a send issued after everything before it has settled (e.g. the first command after a completed handshake)
                async def _send2():
                    try:
                        await self.p.send_data(b"\x66\xbb")
                        self.log.append("QD:ok")
                    except BaseException as e:  # noqa: BLE001
                        self.log.append("QD:" + type(e).__name__)

                cbs.append((lambda: self.tasks.__setitem__("Q", self.loop.create_task(_send2())),))
            elif pr == "P":
                # the host has a DATA frame in flight (written, not yet acknowledged) - its sender is a separate task
                async def _send():
                    try:
                        await self.p.send_data(b"\x55\xaa")
                        self.log.append("PD:ok")
                    except BaseException as e:  # noqa: BLE001
                        self.log.append("PD:" + type(e).__name__)

                cbs.append((lambda: self.tasks.__setitem__("P", self.loop.create_task(_send())),))
            elif pr == "T":
                timer = True
            elif pr.startswith("W="):
                # time passes (less than up to the next deadline) with nothing happening
                nt = self.loop.next_timer()
                d = int(pr[2:]) / 1000.0
                if nt is None or self.loop.time() + d < nt - 1e-3:
                    self.loop.set_time(self.loop.time() + d)
        if timer:
            self.loop.fire_next_timer(cbs)
        else:
            self.loop.iterate(cbs)
            self.loop.settle()
        p, ash = self.p, self.ash

        def fs(f):
            if f is None:
                return "-"
            if not f.done():
                return "p"
            if f.cancelled():
                return "c"
            return "e" if f.exception() is not None else "r"

        st = (f"rx={p._rx_seq} tx={p._tx_seq} failed={int(p._ncp_state == ash.NcpState.FAILED)} "
              f"rf={fs(self.gw._reset_future)} sf={fs(self.gw._startup_reset_future)}")
        self.events.append((batch, self.log[start:], st))
        self.times.append(self.loop.time())


def run_case(tx0, rx0, batches):
    w = World(tx0, rx0)
    try:
        for b in batches:
            ps = b.split("+")
            if "T" in ps and w.loop.next_timer() is None:
                continue
            if any(p.startswith(("R=", "S=")) for p in ps) and len(ps) > 1:
                ps = [p for p in ps if p.startswith(("R=", "S="))][:1]   # a call starts in its own iteration
            b = "+".join([p for p in ps if p != "T"] + (["T"] if "T" in ps else []))
            w.do(b)
    finally:
        w.close()
    return w


RST_WIRE = "1ac038bc7e"


def oracle(w):
    """C11's statements on the implementation trace (for single-caller scenarios)"""
    import bellows.uart as _uart

    waiting = {}
    startup = set()
    lost = False
    fresh_session = False
    t_req = {}     # reset request -> time it was made (the one that armed the timeout: no other request pending then)
    prev_st = None
    for (batch, entries, st), now in zip(w.events, w.times):
        prims = batch.split("+")
        # the receiver's rule, also right after a handshake: a DATA frame carrying the number the host expects is handed up - whatever
        # was received in the session before
        if len(prims) == 1 and prims[0].startswith("F=D:") and prev_st is not None and "failed=0" in prev_st and not lost:
            fn, pay = int(prims[0].split(":")[1]), prims[0].split(":")[4]
            if f"rx={fn} " in prev_st + " " and ("U" + pay) not in entries:
                return (f"DATA frame {prims[0][2:]} arrived with the expected frame number {fn} ({prev_st}) and was not handed up "
                        f"(entries {entries})")
        prev_st = st
        # ---- the reset timeout: an unanswered request raises TimeoutError exactly RESET_TIMEOUT after it was made, whatever
        # else arrives meanwhile
        for e in entries:
            if e.startswith("RD") and e.endswith(":timeout"):
                c = int(e[2:].split(":")[0])
                if c in t_req and abs(now - t_req[c] - _uart.RESET_TIMEOUT) > 1e-6:
                    return (f"reset request {c} made at t={t_req[c]:.3f} raised its timeout at t={now:.3f}, i.e. after {now - t_req[c]:.3f}s; "
                            f"the reset timeout is {_uart.RESET_TIMEOUT}s")
        for c, t0 in t_req.items():
            if c in waiting and not any(e.startswith(f"RD{c}:") for e in entries) and now > t0 + _uart.RESET_TIMEOUT + 1e-6:
                return f"reset request {c} made at t={t0:.3f} is still pending at t={now:.3f}: the reset timeout is {_uart.RESET_TIMEOUT}s"
        now_resets = [int(p[2:]) for p in prims if p.startswith("R=")]
        for e in entries:
            if e.startswith("!") or ":!" in e:
                return f"unexpected exception {e} in batch {batch}"
        # numbering restarts with the handshake: the first DATA frame the host transmits after a completed reset is frame 0
        for e in entries:
            if e.startswith("RD") and e.endswith(":ok"):
                fresh_session = True
            if e[0] == "W" and fresh_session and not lost:
                from harness.props.c05 import decode_wire

                try:
                    dw = decode_wire(ashlib.unhx(e[1:]))
                except Exception:  # noqa: BLE001
                    dw = ("?",)
                if dw[0] == "D" and not dw[2]:
                    if dw[1] != 0:
                        return (f"the first DATA frame after the completed reset handshake carries frame number {dw[1]}, not 0 "
                                f"(batch {batch}; a freshly reset NCP expects 0)")
                    fresh_session = False
        entries = [e for e in entries if not e.startswith(("PD:", "QD:")) and not (e.startswith("W") and ("P" in prims or "Q" in prims))]
        for c in now_resets:
            if not waiting and "L1" not in prims and "L0" not in prims and not lost:
                if "W" + RST_WIRE not in entries:
                    return f"reset request {c} did not write the CANCEL-prefixed RST frame 1A C0 38 BC 7E (wrote {[e for e in entries if e[0] == 'W']})"
            if not waiting and not lost:
                t_req[c] = now
            waiting[c] = True
        for p in prims:
            if p.startswith("S="):
                startup.add(int(p[2:]))
        sw_rstack = any(p == "F=K:2:11" for p in prims)
        other_code = [p for p in prims if (p.startswith("F=K:2:") and p != "F=K:2:11") or (p.startswith("F=E:2:") and p != "F=E:2:11")]
        loss = any(p in ("L1", "L0", "E") for p in prims)
        # completeness: the software-reset acknowledgement, arriving by itself while reset requests wait on an intact connection,
        # completes them - all of them, there and then
        if prims == ["F=K:2:11"] and waiting and not lost:
            missing = [c for c in sorted(waiting) if f"RD{c}:ok" not in entries]
            if missing:
                return (f"the software-reset RSTACK arrived while reset request(s) {sorted(waiting)} were waiting, but {missing} did not complete "
                        f"(entries {entries}, state {st})")
        for e in entries:
            if e.startswith("RD") and e.endswith(":ok"):
                c = int(e[2:].split(":")[0])
                if not sw_rstack:
                    return f"reset {c} completed in batch {batch} without a software-reset RSTACK"
                after = prims[max(i for i, p in enumerate(prims) if p == "F=K:2:11") + 1:]
                if "rx=0 tx=0" not in st and not any(p.startswith("F=D") for p in after):
                    return f"after the completed handshake frame numbers are not zero: {st}"
            if e.startswith("RD"):
                waiting.pop(int(e[2:].split(":")[0]), None)
            if e.startswith("SD"):
                startup.discard(int(e[2:].split(":")[0]))
        for p in other_code:
            code = p.split(":")[2]
            if f"EF{code}" not in entries:
                return f"{p}: not reported as an NCP failure (enter_failed_state({code}) missing): {entries}"
        if loss:
            lost = True
            if "ISE" in entries:
                return f"connection_lost raised InvalidStateError in batch {batch}: waiters/application not notified ({entries})"
            if waiting or startup:
                return f"after connection loss (batch {batch}) reset/start-up waiters are still pending: {sorted(waiting)} {sorted(startup)}"
            for e in entries:
                if e.startswith(("RD", "SD")) and not e.endswith((":connerr", ":ok", ":timeout")):
                    return f"waiter released with {e} instead of the connection error"
    return None


def cases(ctx):
    rng = ctx.rng
    cs = []
    # all 256 RSTACK / ERROR codes x arrival pattern
    for code in range(256):
        for kind in "KE":
            f = f"F={kind}:2:{code}"
            cs.append((0, 0, [f, "R=1", "T"]))           # before the request
            cs.append((3, 5, ["R=1", f, "T"]))           # in time
            cs.append((0, 0, ["R=1", "T", f]))           # after the timeout
            cs.append((1, 2, ["R=1", f, f, "T"]))        # twice
    # all 64 counter states x software / power-on RSTACK in time
    for tx in range(8):
        for rx in range(8):
            cs.append((tx, rx, ["R=1", "F=K:2:11"]))
            cs.append((tx, rx, ["R=1", "F=K:2:2", "T"]))
            cs.append((tx, rx, ["S=1", "F=K:2:11", "R=2", "F=K:2:11"]))
    # connection loss / EOF at every step, alone and batched with the preceding event
    base = [["R=1", "F=K:2:11"], ["R=1", "T"], ["S=1", "F=K:2:11"], ["R=1", "F=K:2:2", "T"], ["S=1", "R=2", "F=K:2:11", "F=K:2:11"],
            ["R=1", "F=E:2:81", "T"], ["R=1", "R=2", "F=K:2:11"], ["R=1", "R=2", "T"]]
    for b in base:
        for loss in ("L1", "L0", "E"):
            for i in range(len(b) + 1):
                cs.append((2, 6, b[:i] + [loss] + b[i:]))
                if i > 0:
                    cs.append((2, 6, b[: i - 1] + [b[i - 1] + "+" + loss] + b[i:]))
                    cs.append((2, 6, b[: i - 1] + [loss + "+" + b[i - 1]] + b[i:]))
    # a DATA frame of the host is in flight when the connection is lost during a reset / start-up wait: the waiters are released
    # all the same (oracle only)
    for loss in ("L0", "L1", "E"):
        for waiter in (["R=1"], ["S=1"], ["S=1", "R=2"]):
            cs.append((0, 0, ["P"] + waiter + [loss]))
            cs.append((4, 3, waiter + ["P", loss]))
            cs.append((0, 0, ["P"] + waiter[:-1] + [waiter[-1], "F=A:0:0:0+" + loss]))
    # a reset that nobody ever acknowledged (it timed out), then a new one: acknowledged in time, it completes
    for tx in range(8):
        cs.append((tx, (tx * 3) % 8, ["R=1", "T", "R=2", "F=K:2:11"]))
        cs.append((tx, 0, ["R=1", "T", "R=2", "W=3000", "F=K:2:11"]))
    # the first frame of the new session is byte-identical to the last frame of the old one (the same answer to the same first query)
    for rx in range(8):
        cs.append((0, rx, [f"F=D:{rx}:0:0:aa", "R=1", "F=K:2:11", "F=D:0:0:0:aa", "F=D:1:0:0:aa"]))
    # a reset abandoned by its caller, then a new one: the new request has its own full timeout and is completed by its own RSTACK
    for w1 in (300, 2000, 4500):
        for w2 in (100, 1500):
            cs.append((0, 0, ["R=1", f"W={w1}", "C=1", f"W={w2}", "R=2", "T", "T"]))
            cs.append((0, 0, ["R=1", f"W={w1}", "C=1", f"W={w2}", "R=2", "W=4000", "F=K:2:11"]))
            cs.append((0, 0, ["S=1", f"W={w1}", "C=1", f"W={w2}", "R=2", "T"]))
    # a DATA frame is in flight when the reset is requested; its ACK and the RSTACK arrive back to back (one read); the first send
    # after the handshake starts the new numbering
    for tx in range(8):
        cs.append((tx, 0, ["P", "R=1", f"F=A:0:0:{(tx + 1) % 8}+F=K:2:11", "Q"]))
        cs.append((tx, 0, ["P", "R=1", f"F=A:0:0:{(tx + 1) % 8}", "F=K:2:11", "Q"]))
        cs.append((tx, 0, ["P", "R=1", "F=K:2:11", "Q"]))
    # the reset timeout runs from the request, whatever arrives meanwhile (frames of the old session, acknowledgements, failures)
    for mids in itertools.product(["F=D:0:0:0:aa", "F=A:0:0:1", "F=K:2:2", "F=E:2:81", "F=N:0:0:0"], repeat=2):
        for w1, w2 in ((700, 1900), (2500, 2400), (4100, 300)):
            cs.append((0, 0, ["R=1", f"W={w1}", mids[0], f"W={w2}", mids[1], "T", "T"]))
            cs.append((5, 0, ["R=1", f"W={w1}", mids[0] + "+" + mids[1], "T", "R=2", "T"]))
    prims = ["R=1", "R=2", "S=3", "F=K:2:11", "F=K:2:2", "F=E:2:81", "F=A:0:0:1", "F=D:0:0:0:aa", "L1", "L0", "E", "T"]
    for _ in range(ctx.n(1500, 20000)):
        bs = []
        used = set()
        for _ in range(rng.randint(2, 7)):
            k = rng.choice([1, 1, 1, 2])
            b = []
            for _ in range(k):
                p = rng.choice(prims)
                if p.startswith(("R=", "S=")):
                    if p in used:
                        continue
                    used.add(p)
                b.append(p)
            if b:
                bs.append("+".join(b))
        cs.append((rng.randrange(8), rng.randrange(8), bs))
    return cs


def run(ctx):
    logging.disable(logging.CRITICAL)
    cs = cases(ctx)
    runs = [run_case(tx, rx, bs) for tx, rx, bs in cs]
    model = ctx.driver([f"c11 run {tx} {rx} " + " ".join(b for b, _, _ in w.events) for (tx, rx, bs), w in zip(cs, runs)])
    nontriv = 0
    for i, ((tx, rx, bs), w) in enumerate(zip(cs, runs)):
        ctx.cov["evaluations"] += 1
        if any("+" in b for b in bs) or any(b in ("L1", "L0", "E", "T") for b in bs):
            nontriv += 1
        for b in bs:
            for p in b.split("+"):
                ctx.count("prim:" + (p[:3] if p[0] == "F" else p[:1]))
        single = sum(1 for b in bs for p in b.split("+") if p.startswith("R=")) <= 1 or True
        bad = oracle(w)
        if bad:
            ise = "InvalidStateError" in bad
            ctx.violation(bad, {"kind": "connection-lost-invalid-state" if ise else "reset"}, {"tx": tx, "rx": rx, "batches": [b for b, _, _ in w.events]})
        if model is not None and w.events and not any(p.startswith(("W=", "C=")) or p in ("P", "Q") for b in bs for p in b.split("+")):
            ms = model[i].split("|")
            for (b, en, st), m in zip(w.events, ms):
                mo, mst = m.split(";")
                me = [] if mo == "." else mo.split(",")
                if sorted(me) != sorted(en) or mst != st:
                    ctx.corr_diff(f"gateway trace differs at batch {b}", {"tx": tx, "rx": rx, "batches": [x for x, _, _ in w.events]}, f"{en} {st}", f"{me} {mst}")
                    break
        if i % 1500 == 7:
            ctx.sample({"tx": tx, "rx": rx, "batches": bs, "impl": [[en, st] for _, en, st in w.events]})
    ctx.cov["distinct_nontrivial"] = nontriv
    # the definition generated from the coroutine Gateway.reset against the real coroutine, script by script
    from harness import resetsrc
    resetsrc.run_cases(ctx)
    ctx.cov["rule"] = ("source level: the definition generated from the coroutine Gateway.reset (BV/Gen/SrcUartReset.lean, run by the driver) against the real coroutine on the virtual loop for scripts of what reaches the gateway while it waits {RSTACK with the software-reset / other codes, ERROR, data, connection lost with / without an exception, EOF}, grouped into 1..4 loop iterations of 1..3 inputs, ended by the deadline or a cancellation, with and without a start-up waiter and a connection-done future pending: outcome, _reset_future and the calls on application and transport are compared; model level: " + "all 256 RSTACK and all 256 ERROR codes x arrival {before the request, in time, after the timeout, twice}; all 64 (tx_seq, rx_seq) states x {software, power-on} RSTACK and a start-up waiter; "
                       "connection loss with/without exception and EOF before and after every step of eight arrival patterns, alone and batched in one loop iteration with the neighbouring event in both orders; "
                       "a reset request left unanswered while DATA / ACK / NAK / failure frames arrive at various times before the deadline (oracle only: the timeout is raised exactly RESET_TIMEOUT after the request); random batched sequences; non-trivial = contains a loss, a timeout or a batched iteration")
    ctx.exhaustive = True


search = run


def replay(ctx, obj):
    logging.disable(logging.CRITICAL)
    r = obj["replay"]
    w = run_case(r["tx"], r["rx"], r["batches"])
    bad = oracle(w)
    print(f"replay {r['batches']}: {[(en, st) for _, en, st in w.events]}: {'FAILS: ' + bad if bad else 'ok'}")
    if bad:
        print(f"VIOLATION property={ctx.pid} replay=replay")
    return 1 if bad else 0
