"""C08 — containment of malformed / unexpected EZSP frames: the real EZSP.frame_received for every
protocol version, with and without a pending command, on valid frames mutated by truncation, byte
flips, frame-ID and sequence substitution, and on random strings; versus the Lean receive-path model
(codec model + command-layer model behind the guard)."""
import asyncio
import importlib
import logging

from harness import ezsplib, vloop
from harness.ashlib import hx


class Gw:
    def __init__(self):
        self.sent = []

    async def send_data(self, data):
        self.sent.append(bytes(data))


def spec_parse_header(version, d):
    if version < 5:
        return (d[0], d[2]) if len(d) >= 3 else None
    if version < 8:
        return (d[0], d[4]) if len(d) >= 5 else None
    return (d[0], d[3] | d[4] << 8) if len(d) >= 5 else None


def outcome(e, h, fut, cbs, pend_fields, before):
    import bellows.exception as bex

    if fut is not None and fut.done():
        if fut.cancelled():
            fut = None
    if fut is not None and fut.done():
        if fut.cancelled():
            return "cancelled?"
        ex = fut.exception()
        if ex is None:
            res = fut.result()
            try:
                if len(pend_fields) == 1 and pend_fields[0][0] == "<single>":
                    vals = [ezsplib.canon(pend_fields[0][2], res)]
                else:
                    vals = [ezsplib.canon(d, a) for (_, _, d), a in zip(pend_fields, res)]
                return "complete:[" + ",".join(vals) + "]"
            except Exception as x:
                return f"complete:canon-raised:{type(x).__name__}"
        if isinstance(ex, bex.InvalidCommandError):
            return "invalid"
        return f"future-exception:{type(ex).__name__}"
    if cbs:
        name, args = cbs[0]
        if name not in h.COMMANDS:
            return f"callback:{name}:[not a frame of this version]"
        fields = ezsplib.schema_fields(h.COMMANDS[name][2])
        try:
            if len(fields) == 1 and fields[0][0] == "<single>":
                vals = [ezsplib.canon(fields[0][2], args)]
            else:
                vals = [ezsplib.canon(d, a) for (_, _, d), a in zip(fields, args)]
        except Exception as x:
            return f"callback:canon-raised:{type(x).__name__}"
        return f"callback:{name}:[" + ",".join(vals) + "]" + ("" if len(cbs) == 1 else f"x{len(cbs)}")
    return "quiet"


def mutations(rng, version, frame, other_ids, n):
    out = [frame]
    hl = 3 if version < 5 else 5
    for k in range(len(frame)):  # truncation at every length
        out.append(frame[:k])
    for _ in range(n):
        b = bytearray(frame)
        m = rng.randrange(5)
        if m == 0 and b:
            b[rng.randrange(len(b))] ^= 1 << rng.randrange(8)
        elif m == 1 and len(b) >= hl:  # frame ID substitution
            cid = rng.choice(other_ids)
            b[:hl] = ezsplib.spec_header(version, b[0], cid)
        elif m == 2 and b:  # sequence substitution
            b[0] = rng.getrandbits(8)
        elif m == 3:
            b += bytes(rng.getrandbits(8) for _ in range(rng.randint(1, 4)))
        else:
            b = bytearray(rng.getrandbits(8) for _ in range(rng.randint(0, 12)))
        out.append(bytes(b))
    return out


def run(ctx):
    logging.disable(logging.CRITICAL)
    import bellows.ezsp as ezsp

    rng = ctx.rng
    loop = vloop.VLoop().install()
    rows = []
    try:
        for version in range(4, 15):
            e = ezsp.EZSP({"path": "/dev/null"})
            gw = Gw()
            e._gw = gw
            e._protocol = ezsp.EZSP._BY_VERSION[version](e.handle_callback, gw)
            h = e._protocol
            e.start_ezsp()
            cbs = []
            e.add_callback(lambda name, args: cbs.append((name, args)))
            names = [n for n, (cid, tx, rx) in h.COMMANDS.items()
                     if not any(ezsplib.has(d, ("inv", "cond")) for _, _, d in ezsplib.schema_fields(rx))]
            ids = [h.COMMANDS[n][0] for n in names]
            for _ in range(ctx.n(25, 400)):
                name = rng.choice(names)
                cid, _, rx = h.COMMANDS[name]
                fields = ezsplib.schema_fields(rx)
                parts = [ezsplib.gen(d, rng, rng.choice(["zero", "max", "rand", "rand"]), i == len(fields) - 1) for i, (_, _, d) in enumerate(fields)]
                seq = rng.getrandbits(8)
                frame = ezsplib.spec_header(version, seq, cid) + b"".join(p[1] for p in parts)
                # frame IDs this version does not define, the same few again and again through the run (an NCP newer than
                # the tables keeps sending them): each arrival is dropped like the first
                known = {c[0] for c in h.COMMANDS.values()}   # the version's table, not whatever the instance has learnt since
                unknown_ids = [i for i in ((0xF7, 0xE9) if version < 8 else (0x0F37, 0x00F7, 0x1234)) if i not in known]
                repeated = [ezsplib.spec_header(version, seq, u) + bytes(rng.getrandbits(8) for _ in range(rng.choice([0, 1, 4]))) for u in unknown_ids]
                # an undefined frame ID in front of bytes that would be a perfectly valid frame in ANOTHER header format (an extended
                # header seen by the legacy parser and the other way round): unknown is unknown, nothing behind it is looked at
                body = b"".join(p[1] for p in parts)
                if version < 5 and 0xFF not in known:
                    repeated.append(bytes([seq, 0x00, 0xFF, 0x00, cid & 0xFF]) + body)
                    repeated.append(bytes([seq, 0x80, 0xFF, 0x00, cid & 0xFF]) + body)
                elif version >= 8 and (cid << 8 | 0xFF) not in known and cid < 256:
                    repeated.append(bytes([seq, 0x80, 0x01, 0xFF, cid & 0xFF]) + body)
                for mode in ("pending-same", "pending-other", "none", "dead-same"):
                    for data in list(mutations(rng, version, frame, ids, ctx.n(6, 20))) + repeated:
                        h._awaiting.clear()
                        fut = None
                        pend = ("-", "-")
                        pend_fields = []
                        if mode != "none":
                            pname = name if mode != "pending-other" else rng.choice(names)
                            pcid, _, prx = h.COMMANDS[pname]
                            fut = loop.create_future()
                            h._awaiting[seq] = (pcid, prx, fut)
                            pend = (seq, pcid)
                            if mode == "dead-same":  # the call is over, its future cancelled (timeout): defensive branch
                                fut.cancel()
                                pend = (f"c{seq}", pcid)
                            pend_fields = ezsplib.schema_fields(prx)
                        cbs.clear()
                        esc = None
                        try:
                            e.frame_received(data)
                        except BaseException as x:
                            esc = type(x).__name__
                        got = f"ESCAPED:{esc}" if esc else outcome(e, h, fut, cbs, pend_fields, None)
                        got += f" aw={len(h._awaiting)}"
                        if fut is not None and fut.done() and not fut.cancelled():
                            fut.exception()
                        rows.append((version, pend, data, got, name))
            # a command is still in flight when the protocol version is switched back to 4 (a reset): a frame in the new version that
            # happens to carry its sequence number and its numeric frame ID - which names another command there - is not its reply
            if version >= 5:
                v4mod = importlib.import_module("bellows.ezsp.v4.commands")
                v4_by_id = {c[0]: (n, c) for n, c in v4mod.COMMANDS.items()}
                cands = [(n, c) for n, c in h.COMMANDS.items() if c[0] in v4_by_id and v4_by_id[c[0]][0] != n
                         and not any(ezsplib.has(d, ("inv", "cond")) for _, _, d in ezsplib.schema_fields(v4_by_id[c[0]][1][2]))
                         and not any(ezsplib.has(d, ("inv", "cond")) for _, _, d in ezsplib.schema_fields(c[1]))]
                for n_old, c_old in cands[: ctx.n(4, 40)]:
                    e2 = ezsp.EZSP({"path": "/dev/null"})
                    gw2 = Gw()
                    e2._gw = gw2
                    e2._protocol = ezsp.EZSP._BY_VERSION[version](e2.handle_callback, gw2)
                    e2.start_ezsp()
                    cb2 = []
                    e2.add_callback(lambda name, args: cb2.append(name))
                    txf = ezsplib.schema_fields(c_old[1])
                    tparts = [ezsplib.gen(d, rng, "rand", i == len(txf) - 1) for i, (_, _, d) in enumerate(txf)]
                    try:
                        from harness.props.c07 import tx_args as _tx_args

                        a, k = _tx_args(n_old, txf, b"".join(p[1] for p in tparts), 0)
                        task2 = loop.create_task(e2._protocol.command(n_old, *a, **k))
                    except Exception:  # noqa: BLE001
                        continue
                    loop.settle()
                    if not gw2.sent:
                        task2.cancel()
                        loop.settle()
                        continue
                    seq2 = gw2.sent[0][0]
                    e2._switch_protocol_version(4)
                    n_new, c_new = v4_by_id[c_old[0]]
                    rxf = ezsplib.schema_fields(c_new[2])
                    rparts = [ezsplib.gen(d, rng, "rand", i == len(rxf) - 1) for i, (_, _, d) in enumerate(rxf)]
                    esc2 = None
                    try:
                        e2.frame_received(ezsplib.spec_header(4, seq2, c_old[0]) + b"".join(p[1] for p in rparts))
                    except BaseException as x:  # noqa: BLE001
                        esc2 = type(x).__name__
                    loop.settle()
                    ctx.cov["evaluations"] += 1
                    ctx.count("version-switch-with-pending-command")
                    if esc2:
                        ctx.violation(f"v{version}->4: frame_received raised {esc2} for a frame arriving after the version switch", {"kind": "containment", "version": version},
                                      {"kind": "switch", "version": version, "old": n_old, "new": n_new})
                    elif task2.done() and not task2.cancelled() and task2.exception() is None:
                        ctx.violation(f"command {n_old} sent under protocol version {version} (seq {seq2}, id {c_old[0]:#x}) was completed by a version-4 frame of {n_new} "
                                      f"that arrived after the switch back to version 4: a pending command was completed by a frame that is not its reply",
                                      {"kind": "containment", "version": version}, {"kind": "switch", "version": version, "old": n_old, "new": n_new})
                    if not task2.done():
                        task2.cancel()
                        loop.settle()
            # afterwards a fresh command still completes normally
            h._awaiting.clear()
            h._seq = 7

            async def fresh():
                t = loop.create_task(h.command("getEui64"))
                return t

            # (a stray copy of exactly the reply the next command will get arrives first, while nothing is pending: it is an unsolicited
            # frame; the command's own reply - the same bytes - still completes the command)
            e.frame_received(ezsplib.spec_header(version, 7, h.COMMANDS["getEui64"][0]) + bytes(range(8)))
            task = loop.create_task(h.command("getEui64"))
            loop.settle()
            e.frame_received(ezsplib.spec_header(version, 7, h.COMMANDS["getEui64"][0]) + bytes(range(8)))
            loop.settle()
            ok = task.done() and not task.cancelled() and task.exception() is None and list(task.result()[0]) == list(range(8))
            if not ok:
                ctx.violation(f"v{version}: after the malformed frames a fresh getEui64 command did not complete normally",
                              {"kind": "not-recovering", "version": version}, {"kind": "fresh", "version": version})
            if not task.done():
                task.cancel()
                loop.settle()
    finally:
        loop.shutdown()
    model = ctx.driver([f"c08 rx {v} {p[0]} {p[1]} {hx(d)}" for v, p, d, _, _ in rows])
    # frame IDs whose response schema the codec model does not cover (a field present only under a condition on another field):
    # a mutated frame may land on one of them; its decoding is then not judged by the model (containment and completion still are)
    import bellows.ezsp as _ez
    unmodelled = {}
    known_ids = {}
    for v_ in range(4, 15):
        cmds_ = _ez.EZSP._BY_VERSION[v_].COMMANDS
        known_ids[v_] = {cid for _, (cid, _tx, _rx) in cmds_.items()}
        unmodelled[v_] = {cid for _, (cid, _tx, rx) in cmds_.items() if any(ezsplib.has(d, ("inv", "cond")) for _, _, d in ezsplib.schema_fields(rx))}
    seen = set()
    for i, (v, pend, data, got, name) in enumerate(rows):
        ctx.cov["evaluations"] += 1
        key = (v, pend, data)
        if key not in seen:
            seen.add(key)
            ctx.cov["distinct_nontrivial"] += 1
        ctx.count("impl:" + got.split(":")[0].split(" ")[0])
        ctx.count(f"version:{v}")
        # ---- oracle
        bad = None
        if got.startswith("ESCAPED"):
            bad = f"EZSP.frame_received raised {got.split()[0][8:]}"
        hdr = spec_parse_header(v, data)
        if got.startswith("complete") and (hdr is None or hdr != pend):
            bad = f"pending command (seq {pend[0]}, id {pend[1]}) was completed by a frame with header {hdr}"
        # (judged without the model: the version's own table says which frame IDs exist)
        if got.startswith("callback") and (hdr is None or hdr[1] not in known_ids.get(v, ())):
            bad = bad or (f"a callback was invoked for a frame whose frame ID {hdr[1] if hdr else None} the table of v{v} does not define: {got[:120]}")
        m = model[i] if model is not None else None
        if m is not None and hdr is not None and hdr[1] in unmodelled.get(v, ()):
            ctx.count("frame-id-outside-the-codec-model")
            m = None
        if m is not None:
            mm = m
            if mm.split(" ")[0] in ("ignored", "raised", "raised-popped", "dropped", "swallowed", "none"):
                mm = "quiet " + mm.split(" ")[1]
            if mm.startswith("complete:"):
                mm = "complete:" + mm.split(":", 2)[2]
            if got.startswith("callback") and not m.startswith("callback"):
                bad = bad or f"a callback was invoked for a frame that does not decode as a known frame of v{v}: {got[:120]}"
            if bad is None and got != mm:
                ctx.corr_diff(f"v{v} receive path differs", {"version": v, "pending": list(pend), "frame": hx(data), "base": name}, got[:300], mm[:300])
        if bad:
            ctx.violation(f"v{v} frame {hx(data)[:80]} pending={pend}: {bad}", {"kind": "containment", "version": v},
                          {"kind": "frame", "version": v, "pending": list(pend), "frame": hx(data)})
        if i % 40000 == 3:
            ctx.sample({"version": v, "pending": list(pend), "frame": hx(data)[:60], "impl": got[:100], "model": (model[i] if model else None)})
    ctx.cov["rule"] = ("for every version 4..14: valid responses/callbacks of random commands (independent encoder), each truncated at every length and mutated by bit flips, frame-ID substitution, "
                       "sequence substitution, appended bytes and replaced by random strings; a few undefined frame IDs arriving again and again on the same handler; with a pending command of the same frame ID, of another frame ID, and without one; then a fresh command. "
                       "distinct = distinct (version, pending, bytes); all reach the receive entry point")
    ctx.exhaustive = False


search = run


def replay(ctx, obj):
    logging.disable(logging.CRITICAL)
    import bellows.ezsp as ezsp

    r = obj["replay"]
    if r["kind"] != "frame":
        before = len(ctx.violations)
        run(ctx)
        bad = [v for v in ctx.violations[before:] if v["key"].get("kind") == "not-recovering" or v["replay"].get("kind") == "switch"]
        print("replay fresh:", "FAILS" if bad else "ok")
        if bad:
            print(f"VIOLATION property={ctx.pid} replay=replay")
        return 1 if bad else 0
    loop = vloop.VLoop().install()
    try:
        version = r["version"]
        e = ezsp.EZSP({"path": "/dev/null"})
        e._gw = Gw()
        e._protocol = ezsp.EZSP._BY_VERSION[version](e.handle_callback, e._gw)
        h = e._protocol
        cbs = []
        e.add_callback(lambda n, a: cbs.append((n, a)))
        fut = None
        if r["pending"][0] != "-":
            fut = loop.create_future()
            name = next(n for n, c in h.COMMANDS.items() if c[0] == r["pending"][1])
            ps = r["pending"][0]
            if isinstance(ps, str) and ps.startswith("c"):
                fut.cancel()
                ps = int(ps[1:])
                r["pending"][0] = ps
            h._awaiting[ps] = (r["pending"][1], h.COMMANDS[name][2], fut)
        esc = None
        try:
            e.frame_received(bytes.fromhex(r["frame"]) if r["frame"] != "-" else b"")
        except BaseException as x:
            esc = type(x).__name__
        hdr = spec_parse_header(version, bytes.fromhex(r["frame"]) if r["frame"] != "-" else b"")
        bad = None
        if esc:
            bad = f"raised {esc}"
        elif fut is not None and fut.done() and not fut.cancelled() and fut.exception() is None and (hdr is None or list(hdr) != r["pending"]):
            bad = "completed by a foreign frame"
        elif cbs:
            m = ctx.driver([f"c08 rx {version} {r['pending'][0]} {r['pending'][1]} {r['frame']}"])[0]
            if not m.startswith("callback"):
                bad = "callback for an undecodable frame"
    finally:
        loop.shutdown()
    print(f"replay v{r['version']} {r['frame'][:60]}: {'FAILS: ' + bad if bad else 'ok'}")
    if bad:
        print(f"VIOLATION property={ctx.pid} replay=replay")
    return 1 if bad else 0
