"""C13 — incoming callbacks: frames built by the independent encoder (role values chosen by the harness)
→ real EZSP.frame_received (every version) → real ControllerApplication.ezsp_callback_handler with
packet_received / handle_join / handle_leave recorded; versus the Lean model (codec + translation) and
the property's table (oracle)."""
import importlib
import logging

from harness import ezsplib, shim, vloop
from harness.ashlib import hx

ROLE = {"type": "mtype", "message_type": "mtype", "apsFrame": "aps", "aps_frame": "aps", "lastHopLqi": "lqi", "lqi": "lqi",
        "lastHopRssi": "rssi", "rssi": "rssi", "sender": "sender", "nwk": "sender", "bindingIndex": "binding", "binding_index": "binding",
        "addressIndex": "addr", "address_index": "addr", "messageContents": "payload", "message": "payload", "eui64": "eui64", "timestamp": "ts"}


def le(n, k):
    return int(n).to_bytes(k, "little")


def build_incoming(version, schema, v):
    """encode by role, field order from the version's schema (independent of the handler's unpacking)"""
    out = b""
    for name, tp in schema.items():
        r = ROLE[name]
        if r == "mtype":
            out += le(v["mtype"], 1)
        elif r == "aps":
            out += le(v["profile"], 2) + le(v["cluster"], 2) + le(v["sep"], 1) + le(v["dep"], 1) + le(v["options"], 2) + le(v["group"], 2) + le(v["tsn"], 1)
        elif r == "lqi":
            out += le(v["lqi"], 1)
        elif r == "rssi":
            out += le(v["rssi"] & 0xFF, 1)
        elif r == "sender":
            out += le(v["sender"], 2)
        elif r == "binding":
            out += le(v["binding"], 1)
        elif r == "addr":
            out += le(v["addr"], 1)
        elif r == "payload":
            out += le(len(v["payload"]), 1) + v["payload"]
        elif r == "eui64":
            out += bytes(v["eui64"])
        elif r == "ts":
            out += le(v["ts"], 4)
    return out


def build_tcjoin(schema, v):
    out = b""
    for name in schema:
        if name == "newNodeId":
            out += le(v["nwk"], 2)
        elif name == "newNodeEui64":
            out += bytes(v["ieee"])
        elif name == "status":
            out += le(v["status"], 1)
        elif name == "policyDecision":
            out += le(v["decision"], 1)
        elif name == "parentOfNewNodeId":
            out += le(v["parent"], 2)
        else:
            raise ValueError(name)
    return out


def run(ctx):
    logging.disable(logging.CRITICAL)
    import bellows.ezsp as ezsp
    import bellows.types as t
    import zigpy.types as zt

    rng = ctx.rng
    loop = vloop.VLoop().install()
    rows = []
    owns = []
    devs_at = {}
    OWN = 0x1A2B
    try:
        app = shim.make_app()
        rec = []
        app.packet_received = lambda p: rec.append(("P", p))
        app.handle_join = lambda nwk, ieee, parent, *a, **k: rec.append(("J", int(nwk), list(ieee), int(parent)))
        app.handle_leave = lambda nwk, ieee, *a, **k: rec.append(("L", int(nwk), list(ieee)))
        app.state.node_info.nwk = zt.NWK(OWN)
        app.create_task = lambda coro, *a, **k: coro.close()
        for version in range(4, 15):
            e = ezsp.EZSP({"path": "/dev/null"})
            e._protocol = ezsp.EZSP._BY_VERSION[version](e.handle_callback, None)
            e._ezsp_version = version
            app._ezsp = e
            # earlier life of the callback registry: a temporary listener (a scan's) is registered before the application attaches
            # and removed after it; another temporary listener starts later.  The application's handler stays attached.
            lid = e.add_callback(lambda name, args: None)
            e.add_callback(app.ezsp_callback_handler)
            e.remove_callback(lid)
            e.add_callback(lambda name, args: None)

            async def _set_mfg(code=None, **kw):
                return [t.EmberStatus.SUCCESS]

            e.setManufacturerCode = _set_mfg  # the override task then stays pending in its 180 s sleep
            cmds = e._protocol.COMMANDS
            im_id, _, im_rx = cmds["incomingMessageHandler"]
            tc_id, _, tc_rx = cmds["trustCenterJoinHandler"]
            for k in range(ctx.n(60, 600)):
                mt = rng.choice([0, 0, 1, 2, 2, 3, 4, 4, 5, 6, rng.randrange(7, 256)])
                plen = rng.choice([0, 1, 2, 10, 60, 100])
                v = dict(mtype=mt, profile=rng.getrandbits(16), cluster=rng.getrandbits(16), sep=rng.getrandbits(8), dep=rng.getrandbits(8),
                         options=rng.getrandbits(16), group=rng.getrandbits(16), tsn=rng.getrandbits(8), lqi=rng.getrandbits(8),
                         rssi=rng.choice([-128, -1, 0, 127, rng.randint(-128, 127)]), sender=rng.getrandbits(16), binding=rng.getrandbits(8),
                         addr=rng.getrandbits(8), payload=bytes(rng.getrandbits(8) for _ in range(plen)), eui64=[rng.getrandbits(8) for _ in range(8)],
                         ts=rng.getrandbits(32))
                if rng.random() < 0.12:
                    v["sender"] = OWN          # a message whose sender is the node's own address is a message like any other
                    ctx.count("sender-is-own-address")
                cb_seq = rng.getrandbits(8)
                if rng.random() < 0.15:
                    # a command abandoned by its caller (cancelled while waiting for the reply), then a callback that happens
                    # to carry the sequence number that command used: it is a callback, to be translated like any other
                    class _G:
                        async def send_data(self, d):
                            pass

                    e._protocol._gw = _G()
                    tk = loop.create_task(e._protocol.command("nop"))
                    loop.settle()
                    cb_seq = (e._protocol._seq - 1) % 256
                    tk.cancel()
                    loop.settle()
                frame = ezsplib.spec_header(version, cb_seq, im_id) + build_incoming(version, im_rx, v)
                # what the application already knows about devices plays no role either: the sender's long address may be in
                # the device table under another short address (it rejoined), under the same one, or the short address may
                # belong to another device
                rd = rng.random()
                if rd < 0.3:
                    try:
                        ieee = zt.EUI64.deserialize(bytes(v["eui64"]))[0]
                        if rd < 0.15:
                            app.add_device(ieee, zt.NWK((v["sender"] + rng.randint(1, 0xFFF0)) % 0xFFF8))
                        elif rd < 0.22:
                            app.add_device(ieee, zt.NWK(v["sender"]))
                        else:
                            app.add_device(zt.EUI64.deserialize(bytes(rng.getrandbits(8) for _ in range(8)))[0], zt.NWK(v["sender"]))
                        ctx.count("device-table-entry-for-sender")
                    except Exception:  # noqa: BLE001 - the device table is zigpy's; if it refuses, the callback is still judged
                        ctx.count("device-table-entry-refused")
                # the radio's own address is whatever the application state holds *now*: it changes between callbacks,
                # in place or (as load_network_info does) by replacing the node-info object
                r = rng.random()
                if r < 0.15:
                    OWN = rng.choice([0x0000, 0x2B5C, rng.getrandbits(16)])
                    app.state.node_info.nwk = zt.NWK(OWN)
                elif r < 0.3:
                    import zigpy.state

                    OWN = rng.choice([0x0000, 0x2B5C, rng.getrandbits(16)])
                    app.state.node_info = zigpy.state.NodeInfo(nwk=zt.NWK(OWN), ieee=app.state.node_info.ieee, logical_type=app.state.node_info.logical_type)
                rec.clear()
                esc = None
                try:
                    e.frame_received(frame)
                except BaseException as x:
                    esc = type(x).__name__
                rows.append((version, "msg", frame, v, list(rec), esc))
                owns.append(OWN)
                try:
                    _ie = zt.EUI64.deserialize(bytes(v["eui64"]))[0]
                    devs_at[len(rows) - 1] = [[hx(d.ieee.serialize()), int(d.nwk)] for d in app.devices.values() if d.ieee == _ie or int(d.nwk) == v["sender"]]
                except Exception:  # noqa: BLE001
                    pass
                # the translation has no memory: the same callback again (a retransmission seen twice, a wrapped
                # APS counter), or another message from the same sender with the same APS counter, is translated
                # again, on its own
                rr = rng.random()
                if rr < 0.3:
                    v2 = dict(v)
                    if rr < 0.15:
                        v2.update(mtype=rng.choice([0, 2, 4]), cluster=rng.getrandbits(16), payload=bytes(rng.getrandbits(8) for _ in range(rng.choice([0, 3, 20]))))
                    frame2 = ezsplib.spec_header(version, rng.getrandbits(8), im_id) + build_incoming(version, im_rx, v2)
                    rec.clear()
                    esc = None
                    try:
                        e.frame_received(frame2)
                    except BaseException as x:
                        esc = type(x).__name__
                    rows.append((version, "msg", frame2, v2, list(rec), esc))
                    owns.append(OWN)
            prev_tc = None
            for k in range(81 + ctx.n(40, 300)):
                v = dict(nwk=rng.getrandbits(16), ieee=[rng.getrandbits(8) for _ in range(8)], status=rng.choice([0, 1, 2, 3, 4, rng.randrange(256)]),
                         decision=rng.choice([0, 1, 2, 3, rng.randrange(256)]), parent=rng.getrandbits(16))
                if k < 81:
                    # the whole grid of small status x decision values first (named members and the unnamed ones next
                    # to them: a decision byte outside the named ones is not a denial)
                    v["status"], v["decision"] = k // 9, k % 9
                elif prev_tc is not None and rng.random() < 0.3:
                    # history: the device of the previous callback again, right away (paired and removed at once, a rejoin followed by a
                    # real departure, two joins in a row): every callback is judged by itself
                    v["nwk"], v["ieee"] = prev_tc["nwk"], list(prev_tc["ieee"])
                    v["status"] = rng.choice([2, 2, 0, 1, 3])
                prev_tc = v
                if rng.random() < 0.4:
                    # vendors whose joins make the application override the manufacturer code for a while
                    # (IEEE prefixes 54:EF:44 / 04:CF:8C; the frame carries the address low byte first); joins of
                    # such devices follow each other while the override of the previous one is still pending
                    v["ieee"][5:8] = rng.choice([[0x44, 0xEF, 0x54], [0x8C, 0xCF, 0x04]])
                frame = ezsplib.spec_header(version, rng.getrandbits(8), tc_id) + build_tcjoin(tc_rx, v)
                rec.clear()
                esc = None
                try:
                    e.frame_received(frame)
                except BaseException as x:
                    esc = type(x).__name__
                rows.append((version, "tc", frame, v, list(rec), esc))
                owns.append(OWN)
            loop.settle()
    finally:
        loop.shutdown()
    model = ctx.driver([f"c13 cb {v} {own} {hx(f)}" for (v, _, f, _, _, _), own in zip(rows, owns)])

    def pkt_str(p):
        d = p.dst
        if d.addr_mode == zt.AddrMode.NWK:
            ds = f"nwk:{int(d.address)}"
        elif d.addr_mode == zt.AddrMode.Group:
            ds = f"group:{int(d.address)}"
        else:
            ds = f"bcast:{int(d.address)}"
        def num(x):
            return "None" if x is None else int(x)   # (a field that is not a number is printed as what it is, and then differs)
        return (f"P src={num(p.src.address)} sep={num(p.src_ep)} dst={ds} dep={num(p.dst_ep)} tsn={num(p.tsn)} prof={num(p.profile_id)} "
                f"clus={num(p.cluster_id)} data={hx(p.data.serialize())} lqi={num(p.lqi)} rssi={num(p.rssi)}")

    for i, (version, kind, frame, v, rec, esc) in enumerate(rows):
        ctx.cov["evaluations"] += 1
        ctx.cov["distinct_nontrivial"] += 1
        ctx.count(f"{kind}:v{version}")
        OWN = owns[i]
        if kind == "msg":
            ctx.count(f"mtype:{v['mtype'] if v['mtype'] < 7 else 'other'}")
            want_dst = {0: f"nwk:{OWN}", 2: f"group:{v['group']}", 4: "bcast:65532"}.get(v["mtype"])
            want = None if want_dst is None else (f"P src={v['sender']} sep={v['sep']} dst={want_dst} dep={v['dep']} tsn={v['tsn']} prof={v['profile']} "
                                                  f"clus={v['cluster']} data={hx(v['payload'])} lqi={v['lqi']} rssi={v['rssi']}")
            got = [pkt_str(r[1]) for r in rec if r[0] == "P"]
            others = [r for r in rec if r[0] != "P"]
        else:
            if v["status"] == 2:
                want = f"L nwk={v['nwk']} ieee={':'.join(map(str, v['ieee']))}"
            elif v["decision"] == 2:
                want = None
            else:
                want = f"J nwk={v['nwk']} ieee={':'.join(map(str, v['ieee']))} parent={v['parent']}"
            got = []
            for r in rec:
                if r[0] == "J":
                    got.append(f"J nwk={r[1]} ieee={':'.join(map(str, r[2]))} parent={r[3]}")
                elif r[0] == "L":
                    got.append(f"L nwk={r[1]} ieee={':'.join(map(str, r[2]))}")
            others = [r for r in rec if r[0] == "P"]
        impl = "ESCAPED:" + esc if esc else (got[0] if len(got) == 1 else ("none" if not got else f"multiple:{len(got)}"))
        spec = want or "none"
        if impl != spec or others:
            ctx.violation(f"v{version} {kind} callback: application produced {impl[:200]} (others {others[:2]}), expected {spec[:200]}",
                          {"kind": kind, "version": version},
                          {"version": version, "kind": kind, "frame": hx(frame), "own": OWN, "spec": spec, "devices": devs_at.get(i, []),
                           # what the same application object was given before (the translation must not depend on it)
                           "history": [hx(r[2]) for r in rows[max(0, i - 80):i] if r[0] == version]})
        if model is not None and model[i] != impl:
            ctx.corr_diff(f"v{version} {kind} callback translation differs", {"version": version, "frame": hx(frame)}, impl[:300], model[i][:300])
        if i % 400 == 0:
            ctx.sample({"version": version, "kind": kind, "frame": hx(frame)[:80], "impl": impl[:160], "model": model[i][:160] if model else None})
    ctx.cov["rule"] = ("for every version 4..14: incomingMessageHandler frames with message types 0..6 and undefined ones, random APS fields, payload lengths 0..100, RSSI extremes, the radio's own address changing between callbacks (in place or by replacing the node-info object); "
                       "the sender's EUI64 / short address already in the application's device table under another / the same address (30 %); callbacks carrying the sequence number of a command its caller abandoned; every third callback followed by the same callback again or by another message of the same sender with the same APS counter; trustCenterJoinHandler frames over all status x decision classes, 40 % from the vendors whose join starts the manufacturer-code override, following each other while that override is pending; encoded by role from the version's schema order, pushed through the real receive path and the real callback handler")
    ctx.exhaustive = False


search = run


def replay(ctx, obj):
    logging.disable(logging.CRITICAL)
    import bellows.ezsp as ezsp
    import zigpy.types as zt

    r = obj["replay"]
    loop = vloop.VLoop().install()
    try:
        app = shim.make_app()
        rec = []
        app.packet_received = lambda p: rec.append(f"P src={int(p.src.address)}")
        app.handle_join = lambda *a, **k: rec.append("J")
        app.handle_leave = lambda *a, **k: rec.append("L")
        app.state.node_info.nwk = zt.NWK(r["own"])
        app.create_task = lambda coro, *a, **k: coro.close()
        e = ezsp.EZSP({"path": "/dev/null"})
        e._protocol = ezsp.EZSP._BY_VERSION[r["version"]](e.handle_callback, None)
        e._ezsp_version = r["version"]
        app._ezsp = e
        e.add_callback(app.ezsp_callback_handler)

        async def _set_mfg(code=None, **kw):
            return [0]

        e.setManufacturerCode = _set_mfg
        for ie, nw in r.get("devices", []):
            try:
                app.add_device(zt.EUI64.deserialize(bytes.fromhex(ie))[0], zt.NWK(nw))
            except Exception:  # noqa: BLE001
                pass
        for h in r.get("history", []):
            try:
                e.frame_received(bytes.fromhex(h))
            except BaseException:  # noqa: BLE001
                pass
        rec.clear()
        e.frame_received(bytes.fromhex(r["frame"]))
    finally:
        loop.shutdown()
    want = r["spec"][0] if r["spec"] != "none" else None
    if want == "P":
        want = r["spec"].split(" sep=")[0]
    bad = None if (rec == ([want] if want else [])) else f"recorded {rec}, expected {want}"
    print(f"replay v{r['version']} {r['kind']}: {'FAILS: ' + bad if bad else 'ok (kind-level replay)'}")
    if bad:
        print(f"VIOLATION property={ctx.pid} replay=replay")
    return 1 if bad else 0
