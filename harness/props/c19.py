"""C19 — watchdog failure counting and keep-alive choice: real _watchdog_feed vs model."""
import asyncio
import itertools
import logging

from harness import shim


class StubEzsp:
    def __init__(self, version):
        self.ezsp_version = version
        self.plan = None  # outcome for the next feed: 'o', 't', 'e'
        self.where = 0  # which command of the feed fails (0 = keep-alive, 1 = getValue)
        self.calls = []

    def _maybe_fail(self, idx):
        from bellows.exception import EzspError

        if self.plan in ("t", "e", "i") and self.where == idx:
            if self.plan == "t":
                raise asyncio.TimeoutError()
            if self.plan == "i":
                # what ProtocolHandler raises when the NCP answers with an invalidCommand frame: a failed feed like any other
                from bellows.exception import InvalidCommandError

                raise InvalidCommandError("invalid command")
            raise EzspError("injected")

    async def _slow(self):
        if self.plan == "s":
            await asyncio.sleep(8.0)   # answered, late but inside the command's own timeout

    async def nop(self):
        self.calls.append("nop")
        await self._slow()
        self._maybe_fail(0)

    async def read_counters(self):
        self.calls.append("readCounters")
        await self._slow()
        self._maybe_fail(0)
        return {}

    async def read_and_clear_counters(self):
        self.calls.append("readAndClearCounters")
        await self._slow()
        self._maybe_fail(0)
        return {}

    async def getValue(self, valueId=None):
        import bellows.types as t

        self.calls.append("getValue")
        await self._slow()
        self._maybe_fail(1)
        if self.plan == "u":
            return (t.EzspStatus.ERROR_INVALID_ID, b"")
        # the value is a length-prefixed byte string: the NCP may answer with none, one or several bytes (the feed counts as
        # successful whatever its width)
        self.nval = getattr(self, "nval", 0) + 1
        return (t.EzspStatus.SUCCESS, [b"\x10", b"", b"\x10\x00", b"\x07\x00\x00\x00", b"\xff"][self.nval % 5])


def deliver_callback(app, version, kind):
    """an unsolicited NCP callback between two feeds: traffic is not a successful feed"""
    import bellows.types as t

    aps = t.EmberApsFrame(profileId=260, clusterId=6, sourceEndpoint=1, destinationEndpoint=1, options=0, groupId=0, sequence=0)
    if kind == "sent":  # a delivery confirmation nobody waits for
        if version >= 14:
            args = [t.sl_Status.OK, t.EmberOutgoingMessageType.OUTGOING_DIRECT, 0x1234, aps, 0x99, b""]
        else:
            args = [t.EmberOutgoingMessageType.OUTGOING_DIRECT, 0x1234, aps, 0x99, t.EmberStatus.SUCCESS, b""]
        app.ezsp_callback_handler("messageSentHandler", args)
    elif kind == "other":
        app.ezsp_callback_handler("counterRolloverHandler", [t.EmberCounterType.COUNTER_MAC_RX_BROADCAST])
    else:
        app.ezsp_callback_handler("stackStatusHandler", [t.sl_Status.NETWORK_UP if version >= 14 else t.EmberStatus.NETWORK_UP])


async def run_word(version, word, where, cbs=None):
    app = shim.make_app()
    ez = StubEzsp(version)
    app._ezsp = ez
    out = []
    for i, o in enumerate(word):
        if cbs and cbs[i]:
            try:
                deliver_callback(app, version, cbs[i])
            except Exception as e:
                out.append(f"X{type(e).__name__}:callback")
                return out
        ez.plan = o
        ez.where = where[i] if version != 4 else 0
        ez.calls = []
        try:
            await app._watchdog_feed()
            raised = "0"
        except (asyncio.TimeoutError, Exception) as e:
            from bellows.exception import EzspError

            raised = "1" if isinstance(e, (asyncio.TimeoutError, EzspError)) else f"X{type(e).__name__}"
        ka = ez.calls[0] if ez.calls else "none"
        out.append(f"{raised}:{ka}")
    return out


async def run_word_real(version, word):
    """the same feeds through the REAL command layer (EZSP + the version's protocol handler) over a gateway stub: outcome `o` = the
    NCP answers at once, `a` = the frame is never acknowledged - `send_data` raises the timeout of the ASH layer, as
    AshProtocol.send_data does after its last retransmission.  A failed feed like any other."""
    import bellows.ezsp as ezsp
    from bellows.exception import EzspError
    from harness import ezsplib

    app = shim.make_app()
    e = ezsp.EZSP({"path": "/dev/null"})
    state = {"plan": "o"}

    class Gw:
        async def send_data(self, data):
            if state["plan"] == "a":
                raise asyncio.TimeoutError()
            d = bytes(data)
            seq = d[0]
            cid = d[2] if version < 5 else d[4] if version < 8 else d[3] | d[4] << 8
            name, _tx, rx = e._protocol.COMMANDS_BY_ID[cid]
            fields = ezsplib.schema_fields(rx)
            body = b"".join(ezsplib.gen(dd, None, "zero", i == len(fields) - 1)[1] for i, (_, _, dd) in enumerate(fields))
            asyncio.get_running_loop().call_soon(e.frame_received, ezsplib.spec_header(version, seq, cid) + body)

    hv = min(version, 14)
    e._gw = Gw()
    e._protocol = ezsp.EZSP._BY_VERSION[hv](e.handle_callback, e._gw)
    e._ezsp_version = version
    e.start_ezsp()
    app._ezsp = e
    out = []
    for o in word:
        state["plan"] = o
        try:
            await app._watchdog_feed()
            raised = "0"
        except (asyncio.TimeoutError, Exception) as x:  # noqa: BLE001
            raised = "1" if isinstance(x, (asyncio.TimeoutError, EzspError)) else f"X{type(x).__name__}"
        out.append(raised)
    return out


def oracle(version, word, got, maxf, period):
    run = 0
    n = 0
    for k, (o, g) in enumerate(zip(word, got)):
        r, ka = g.split(":")
        run = run + 1 if o in "tei" else 0
        want = "1" if (o in "tei" and run > maxf) else "0"
        if r != want:
            return k, f"feed {k} of word {word!r} (v{version}): raised={r}, expected {want} (run of {run} consecutive failures, tolerated {maxf})"
        if version == 4:
            wka = "nop"
        else:
            n += 1
            wka = "readAndClearCounters" if n % period == 0 else "readCounters"
        if ka != wka:
            return k, f"feed {k} of word {word!r} (v{version}): keep-alive {ka}, expected {wka}"
    return None


def run(ctx):
    logging.disable(logging.CRITICAL)
    import bellows.zigbee.application as app_mod

    maxf = app_mod.MAX_WATCHDOG_FAILURES
    period = app_mod.EZSP_COUNTERS_CLEAR_IN_WATCHDOG_PERIODS
    L = ctx.n(7, 9)
    cases = []
    for version in (4, 8):
        for n in range(1, L + 1):
            for w in itertools.product("oteu" if version != 4 and n <= L - 1 else "ote", repeat=n):
                cases.append((version, "".join(w)))
    # other versions, random longer words, and runs across the counter-clear boundary
    for _ in range(ctx.n(100, 1000)):
        v = ctx.rng.choice([4, 5, 6, 7, 9, 10, 11, 12, 13, 14, 15, 16, 255])   # (newer than the newest handler: driven like the newest)
        n = ctx.rng.randint(8, 40)
        cases.append((v, "".join(ctx.rng.choice("oouutttei") for _ in range(n))))
    for version in (4, 8, 14):   # the NCP answers the keep-alive with an invalid-command frame
        for n in range(1, maxf + 3):
            for w in itertools.product("oti", repeat=n):
                if "i" in w:
                    cases.append((version, "".join(w)))
    for v in (15, 16, 255):
        for n in range(1, 4):
            for w in itertools.product("ote", repeat=n):
                cases.append((v, "".join(w)))
    for v in (4, 7, 14):
        n = 2 * period + 40
        cases.append((v, "".join(ctx.rng.choice("ooooooooote") for _ in range(n))))
        cases.append((v, "o" * (period - 3) + "ttttttt" + "o" * 5))

    # the same words again for a sample, now with unsolicited callbacks delivered between the feeds
    plain = len(cases)
    cbplan = [None] * plain
    for version in (4, 8, 14):
        for n in range(maxf, maxf + 3):
            for w in itertools.product("ot", repeat=n):
                for kind in ("sent", "other", "status"):
                    cases.append((version, "".join(w)))
                    cbplan.append([kind] * n)
    for _ in range(ctx.n(100, 1000)):
        v = ctx.rng.choice(range(4, 15))
        n = ctx.rng.randint(8, 30)
        cases.append((v, "".join(ctx.rng.choice("otttte") for _ in range(n))))
        cbplan.append([ctx.rng.choice([None, "sent", "other", "status"]) for _ in range(n)])

    async def all_impl():
        res = []
        for (v, w), cb in zip(cases, cbplan):
            where = [ctx.rng.randint(0, 1) for _ in w]
            wheres.append(where)
            res.append(await run_word(v, w, where, cb))
        return res

    wheres = []

    impl = asyncio.run(all_impl())
    # the real command layer under the feed: a keep-alive whose frame is never acknowledged (the timeout comes out of send_data)
    async def real_words():
        res = []
        for version in (4, 8, 13, 14):
            for w in ("a", "oa", "aaaa", "aaaaa", "aaaaoaaaaa", "aoaoaoaoa"):
                res.append((version, w, await run_word_real(version, w)))
        return res

    for version, w, got in asyncio.run(real_words()):
        ctx.cov["evaluations"] += 1
        ctx.count("real-command-layer-words")
        run_ = 0
        for k, (o, g) in enumerate(zip(w, got)):
            run_ = run_ + 1 if o == "a" else 0
            want = "1" if (o == "a" and run_ > maxf) else "0"
            if g != want:
                ctx.violation(f"feed {k} of word {w!r} (v{version}) through the real command layer (a = the keep-alive's frame is never acknowledged, send_data raises "
                              f"the link's timeout): raised={g}, expected {want} (run of {run_} consecutive failures, tolerated {maxf})",
                              {"kind": "real-layer", "version": version}, {"kind": "real-layer", "version": version, "word": w})
                break
    # feeds whose commands are answered late - 8 s each, inside the command timeout, 16 s for a feed of two commands: successful
    # feeds like any other (they clear the run of failures, they never raise); on the virtual clock
    from harness import vloop

    for version in (4, 8, 14):
        for w in ("s", "ss", "ts", "tttts", "ttttso", "ttttst", "sttttt"):
            loop = vloop.VLoop().install()
            try:
                task = loop.create_task(run_word(version, w, [0] * len(w)))
                for _ in range(20000):
                    loop.settle()
                    if task.done() or not loop.fire_next_timer():
                        break
                loop.settle()
                if task.done() and not task.cancelled() and task.exception() is None:
                    got = task.result()
                else:
                    got = [f"X{'hang' if not task.done() else type(task.exception()).__name__ if not task.cancelled() else 'cancelled'}:none"]
                    if not task.done():
                        task.cancel()
                        loop.settle()
            finally:
                loop.uninstall()
            cases.append((version, w))
            cbplan.append(None)
            wheres.append([0] * len(w))
            impl.append(got)
            ctx.count("slow-feed-words")
    # 'u' (feed succeeds, free-buffer value unavailable) is an `ok` outcome for the model and the property
    model = ctx.driver([f"c19 run {v} 0 {w.replace('u', 'o').replace('s', 'o').replace('i', 'e')}" for v, w in cases])  # for the model an invalid-command answer is an EZSP error
    nontrivial = 0
    for i, ((v, w), got) in enumerate(zip(cases, impl)):
        ctx.cov["evaluations"] += 1
        if "t" in w or "e" in w or "i" in w:
            nontrivial += 1
        if any(g.startswith("1") for g in got):
            ctx.count("words_with_raise")
        ctx.count(f"version:{v}")
        bad = oracle(v, w, got, maxf, period)
        if bad:
            k, msg = bad
            ctx.violation(msg, {"version": v, "word": w[: k + 1]}, {"version": v, "word": w[: k + 1], "impl": got[: k + 1], "where": wheres[i][: k + 1],
                                                                   "callbacks": cbplan[i][: k + 1] if cbplan[i] else None})
        if model is not None and " ".join(got) != model[i]:
            ctx.corr_diff("watchdog feed trace differs", {"version": v, "word": w}, " ".join(got), model[i])
        if i % 1500 == 7:
            ctx.sample({"version": v, "word": w, "impl": got, "model": model[i] if model else None})
    ctx.cov["distinct_nontrivial"] = nontrivial
    ctx.cov["rule"] = (f"every outcome word over {{ok, timeout, EzspError}} of length 1..{L} for protocol versions 4 and 8 (exhaustive), "
                       "random longer words for the other versions, runs across the counter-clear period boundary; the failing command is the keep-alive or "
                       "the free-buffer read at random; words over {ok, timeout} of length tolerated..tolerated+2 and random words with an unsolicited callback (unmatched delivery confirmation, counter rollover, stack status) delivered before every / random feeds; non-trivial = the word contains at least one failure; words are distinct by construction")
    ctx.exhaustive = True


search = run


def replay(ctx, obj):
    logging.disable(logging.CRITICAL)
    import bellows.zigbee.application as app_mod

    r = obj["replay"]
    if r.get("kind") == "real-layer":
        maxf = app_mod.MAX_WATCHDOG_FAILURES
        got = asyncio.run(run_word_real(r["version"], r["word"]))
        run_, bad = 0, None
        for k, (o, g) in enumerate(zip(r["word"], got)):
            run_ = run_ + 1 if o == "a" else 0
            if g != ("1" if (o == "a" and run_ > maxf) else "0"):
                bad = f"feed {k}: raised={g}"
                break
        print(f"replay real command layer: v{r['version']} word {r['word']}: {got}: {'FAILS: ' + bad if bad else 'ok'}")
        if bad:
            print(f"VIOLATION property={ctx.pid} replay=replay")
        return 1 if bad else 0
    got = asyncio.run(run_word(r["version"], r["word"], r.get("where") or [0] * len(r["word"]), r.get("callbacks")))
    bad = oracle(r["version"], r["word"], got, app_mod.MAX_WATCHDOG_FAILURES, app_mod.EZSP_COUNTERS_CLEAR_IN_WATCHDOG_PERIODS)
    print(f"replay: v{r['version']} word {r['word']}: {got}: {'FAILS: ' + bad[1] if bad else 'ok'}")
    if bad:
        print(f"VIOLATION property={ctx.pid} replay=replay")
    return 1 if bad else 0
