"""Stateful simulated NCP at the EZSP *command* level (the byte level is C07/C09's business): what an
EmberZNet NCP stores and returns for the commands the network-settings write / read-back sequences use.
Every response is built BY FIELD NAME from the active version's rx schema — never in the order the
handler happens to unpack — so a handler that unpacks a redefined response in an old order is exposed.

This is the specification side of C14 (my reading of UG100 / the EmberZNet API; see DESIGN.md)."""
from __future__ import annotations

import asyncio

FF8 = bytes([0xFF] * 8)


class Store:
    def __init__(self, version, *, nv3=True, key_table_size=8, factory_eui64=bytes(range(0x10, 0x18))):
        self.n = version
        self.nv3 = nv3 and version >= 9
        self.K = key_table_size
        self.factory_eui64 = factory_eui64
        self.custom_eui64 = None
        self.mfg_custom = None
        self.formed = False
        self.up = False
        self.params = None
        self.sec = None  # EmberInitialSecurityState as written
        self.sec_frames = []
        self.nwk_fc = 0
        self.aps_fc = 0
        self.keys = [None] * key_table_size  # (eui64 bytes, key bytes)
        self.children = {}  # index -> (eui64 bytes, nwk, type)
        self.config = {}
        self.values = {}
        self.log = []
        self.ezsp = None

    # ---------------------------------------------------------------- plumbing
    def attach(self, ezsp):
        import bellows.ezsp.protocol as proto

        self.ezsp = ezsp
        store = self
        self._orig_command = proto.ProtocolHandler.command

        async def command(handler, name, *args, **kwargs):
            return await store.handle(handler, name, args, kwargs)

        proto.ProtocolHandler.command = command

        class Gw:
            async def reset(self_inner):
                store.link_reset()

            def close(self_inner):
                pass

        ezsp._gw = Gw()

    def detach(self):
        import bellows.ezsp.protocol as proto

        proto.ProtocolHandler.command = self._orig_command

    def link_reset(self):
        self.up = False
        self.config = {}
        # a manufacturing token burnt into user data becomes the node's address when the NCP boots the next time
        if getattr(self, "mfg_pending", None) is not None:
            self.mfg_custom = self.mfg_pending

    def emit(self, handler, name, **fields):
        rx = handler.COMMANDS[name][2]
        vals = self.build(rx, fields)
        asyncio.get_running_loop().call_soon(handler._handle_callback, name, vals)

    def build(self, rx, fields):
        from harness import ezsplib
        import random

        rng = random.Random(0)
        if isinstance(rx, dict):
            out = []
            for fname, tp in rx.items():
                if fname in fields:
                    v = fields[fname]
                    out.append(v if isinstance(v, tp) else tp(v))
                else:
                    zero = ezsplib.gen(ezsplib.desc(tp), rng, "zero")[1]
                    out.append(tp.deserialize(zero)[0])
            return out
        return rx(**{f.name: fields[f.name] for f in rx.fields if f.name in fields})

    async def handle(self, handler, name, args, kwargs):
        import bellows.types as t

        cid, tx, rx = handler.COMMANDS[name]
        if isinstance(tx, dict):
            a = dict(zip(tx.keys(), args))
            a.update(kwargs)
        else:
            a = {"<single>": args[0] if args else None}
        self.log.append((name, a))
        await asyncio.sleep(0)
        v14 = handler.VERSION >= 14
        self.OK = t.sl_Status.OK if v14 else t.EmberStatus.SUCCESS
        self._h = handler
        fn = getattr(self, "cmd_" + name, None)
        fields = fn(handler, a) if fn else {}
        if fields is None:
            fields = {}
        if "status" in (rx if isinstance(rx, dict) else {}) and "status" not in fields:
            fields["status"] = self._status(rx["status"], True)
        return self.build(rx, fields)

    def _status(self, tp, ok, ember_fail=None, sl_fail=None):
        import bellows.types as t

        if ok:
            return tp(0)
        if tp is t.sl_Status:
            return sl_fail if sl_fail is not None else t.sl_Status.FAIL
        if tp is t.EzspStatus:
            return t.EzspStatus.ERROR_INVALID_ID
        return ember_fail if ember_fail is not None else t.EmberStatus.ERR_FATAL

    def st(self, name, ok=True, ember_fail=None, sl_fail=None):
        rx = self._h.COMMANDS[name][2]
        return self._status(rx["status"], ok, ember_fail, sl_fail)

    # ---------------------------------------------------------------- commands
    def cmd_version(self, h, a):
        return {"protocolVersion": self.n, "stackType": 2, "stackVersion": 0x7400}

    def cmd_getConfigurationValue(self, h, a):
        import bellows.types as t

        cid = int(a["configId"])
        defaults = {int(t.EzspConfigId.CONFIG_KEY_TABLE_SIZE): self.K, int(t.EzspConfigId.CONFIG_ADDRESS_TABLE_SIZE): 4,
                    int(t.EzspConfigId.CONFIG_SECURITY_LEVEL): 5}
        return {"value": self.config.get(cid, defaults.get(cid, 2))}

    def cmd_setConfigurationValue(self, h, a):
        self.config[int(a["configId"])] = int(a["value"])

    def cmd_getValue(self, h, a):
        import bellows.types as t

        vid = int(a["valueId"])
        if vid == int(t.EzspValueId.VALUE_VERSION_INFO):
            v = bytes([0x10, 0x01, 7, 4, 1, 0, 0])
        else:
            v = self.values.get(vid, b"\x10")
        return {"value": t.LVBytes(v)}

    def cmd_setValue(self, h, a):
        import bellows.types as t

        vid = int(a["valueId"])
        v = bytes(a["value"])
        if vid in getattr(self, "refuse_values", ()):
            # firmware that does not let the host set this value
            return {"status": self.st("setValue", False)}
        self.values[vid] = v
        if vid == int(t.EzspValueId.VALUE_NWK_FRAME_COUNTER):
            self.nwk_fc = int.from_bytes(v, "little")
        if vid == int(t.EzspValueId.VALUE_APS_FRAME_COUNTER):
            self.aps_fc = int.from_bytes(v, "little")

    def cmd_getMfgToken(self, h, a):
        import bellows.types as t

        tid = a["tokenId"]
        if tid == t.EzspMfgTokenId.MFG_CUSTOM_EUI_64:
            return {"tokenData": t.LVBytes(getattr(self, "mfg_pending", None) or self.mfg_custom or FF8)}
        return {"tokenData": t.LVBytes(b"\xff" * 16)}

    def cmd_setMfgToken(self, h, a):
        self.mfg_pending = bytes(a["tokenData"])

    def cmd_getTokenData(self, h, a):
        import bellows.types as t

        status_t = [f.type for f in h.COMMANDS["getTokenData"][2].fields if f.name == "status"][0]
        if self.nv3 and int(a["token"]) == int(t.NV3KeyId.CREATOR_STACK_RESTORED_EUI64):
            return {"status": status_t(0), "value": t.LVBytes32(self.custom_eui64 or FF8)}
        return {"status": self._status(status_t, False), "value": t.LVBytes32(b"")}

    def cmd_setTokenData(self, h, a):
        v = bytes(a["token_data"])
        self.custom_eui64 = None if v == FF8 else v

    def cmd_getEui64(self, h, a):
        import bellows.types as t

        return {"eui64": t.EUI64.deserialize(self.custom_eui64 or self.mfg_custom or self.factory_eui64)[0]}

    def cmd_getNodeId(self, h, a):
        return {"nodeId": 0x0000}

    def cmd_networkState(self, h, a):
        import bellows.types as t

        return {"status": t.EmberNetworkStatus.JOINED_NETWORK if self.up else t.EmberNetworkStatus.NO_NETWORK}

    def _init(self, h, name):
        import bellows.types as t

        if self.formed:
            self.up = True
            self.emit(h, "stackStatusHandler", status=(t.sl_Status.NETWORK_UP if h.VERSION >= 14 else t.EmberStatus.NETWORK_UP))
            return {}
        return {"status": self.st(name, False, t.EmberStatus.NOT_JOINED, t.sl_Status.NOT_JOINED)}

    def cmd_networkInit(self, h, a):
        return self._init(h, "networkInit")

    def cmd_networkInitExtended(self, h, a):
        return self._init(h, "networkInitExtended")

    def cmd_formNetwork(self, h, a):
        import bellows.types as t

        if getattr(self, "fail_form_once", False):
            # the NCP refuses to form the network (once): what was written before stays in its tables
            self.fail_form_once = False
            return {"status": self.st("formNetwork", False)}
        self.params = a["parameters"]
        self.formed = True
        self.up = True
        self.emit(h, "stackStatusHandler", status=(t.sl_Status.NETWORK_UP if h.VERSION >= 14 else t.EmberStatus.NETWORK_UP))

    def cmd_leaveNetwork(self, h, a):
        import bellows.types as t

        self.formed = False
        self.up = False
        self.params = None
        self.children = {}  # leaving the network erases the child table
        self.emit(h, "stackStatusHandler", status=(t.sl_Status.NETWORK_DOWN if h.VERSION >= 14 else t.EmberStatus.NETWORK_DOWN))

    def cmd_getNetworkParameters(self, h, a):
        import bellows.types as t

        return {"nodeType": t.EmberNodeType.COORDINATOR, "parameters": self.params}

    def cmd_setInitialSecurityState(self, h, a):
        self.sec = a["state"]
        self.sec_frames.append(a["state"])

    def cmd_getCurrentSecurityState(self, h, a):
        import bellows.types as t

        b = t.EmberCurrentSecurityBitmask(0)
        ib = self.sec.bitmask
        if t.EmberInitialSecurityBitmask.TRUST_CENTER_GLOBAL_LINK_KEY in ib:
            b |= t.EmberCurrentSecurityBitmask.GLOBAL_LINK_KEY
        b |= t.EmberCurrentSecurityBitmask.HAVE_TRUST_CENTER_LINK_KEY
        if t.EmberInitialSecurityBitmask.TRUST_CENTER_USES_HASHED_LINK_KEY in ib:
            b |= t.EmberCurrentSecurityBitmask.TRUST_CENTER_USES_HASHED_LINK_KEY
        return {"state": t.EmberCurrentSecurityState(bitmask=b, trustCenterLongAddress=t.EUI64.deserialize(FF8)[0])}

    def _keystruct(self, key, *, seq=None, out=None, partner=None, ktype=None):
        import bellows.types as t

        b = t.EmberKeyStructBitmask(0)
        if seq is not None:
            b |= t.EmberKeyStructBitmask.KEY_HAS_SEQUENCE_NUMBER
        if out is not None:
            b |= t.EmberKeyStructBitmask.KEY_HAS_OUTGOING_FRAME_COUNTER
        if partner is not None:
            b |= t.EmberKeyStructBitmask.KEY_HAS_PARTNER_EUI64 | t.EmberKeyStructBitmask.KEY_HAS_INCOMING_FRAME_COUNTER
        return t.EmberKeyStruct(bitmask=b, type=ktype, key=key, outgoingFrameCounter=out or 0, incomingFrameCounter=0,
                                sequenceNumber=seq or 0, partnerEUI64=t.EUI64.deserialize(partner or FF8)[0])

    def cmd_getKey(self, h, a):
        import bellows.types as t

        if a["keyType"] == t.EmberKeyType.CURRENT_NETWORK_KEY:
            return {"keyStruct": self._keystruct(self.sec.networkKey, seq=int(self.sec.networkKeySequenceNumber), out=self.nwk_fc, ktype=a["keyType"])}
        return {"keyStruct": self._keystruct(self.sec.preconfiguredKey, out=self.aps_fc, partner=FF8, ktype=a["keyType"])}

    def cmd_exportKey(self, h, a):
        import bellows.types as t

        ctx = a["context"]
        key = self.sec.networkKey if ctx.core_key_type == t.SecurityManagerKeyType.NETWORK else self.sec.preconfiguredKey
        return {"key": key, "context": ctx}

    def cmd_getNetworkKeyInfo(self, h, a):
        import bellows.types as t

        return {"network_key_info": t.SecurityManagerNetworkKeyInfo(network_key_set=True, alternate_network_key_set=False,
                                                                    network_key_sequence_number=int(self.sec.networkKeySequenceNumber),
                                                                    alt_network_key_sequence_number=0, network_key_frame_counter=self.nwk_fc)}

    def cmd_clearKeyTable(self, h, a):
        self.keys = [None] * self.K

    def cmd_tokenFactoryReset(self, h, a):
        self.keys = [None] * self.K
        self.children = {}
        self.nwk_fc = self.aps_fc = 0

    def cmd_addOrUpdateKeyTableEntry(self, h, a):
        e = bytes(a["address"].serialize())
        if e == getattr(self, "refuse_partner", None):
            import bellows.types as t

            # a link key the NCP will not take (EmberZNet refuses e.g. a partner equal to its own address); later keys are fine
            return {"status": self.st("addOrUpdateKeyTableEntry", False, t.EmberStatus.KEY_TABLE_INVALID_ADDRESS)}
        for i, k in enumerate(self.keys):
            if k is not None and k[0] == e:
                self.keys[i] = (e, a["keyData"])
                return {}
        for i, k in enumerate(self.keys):
            if k is None:
                self.keys[i] = (e, a["keyData"])
                return {}
        import bellows.types as t

        return {"status": self.st("addOrUpdateKeyTableEntry", False, t.EmberStatus.TABLE_FULL)}

    def cmd_importLinkKey(self, h, a):
        import bellows.types as t

        i = int(a["index"])
        if i >= self.K:
            return {"status": t.sl_Status.INVALID_INDEX}
        if bytes(a["address"].serialize()) == getattr(self, "refuse_partner", None):
            return {"status": t.sl_Status.INVALID_PARAMETER}
        self.keys[i] = (bytes(a["address"].serialize()), a["key"])

    def cmd_getKeyTableEntry(self, h, a):
        import bellows.types as t

        i = int(a["index"])
        if i >= self.K:
            return {"status": self.st("getKeyTableEntry", False, t.EmberStatus.INDEX_OUT_OF_RANGE)}
        if self.keys[i] is None:
            return {"status": self.st("getKeyTableEntry", False, t.EmberStatus.TABLE_ENTRY_ERASED)}
        e, k = self.keys[i]
        return {"keyStruct": self._keystruct(k, out=0, partner=e, ktype=t.EmberKeyType.APPLICATION_LINK_KEY)}

    def cmd_exportLinkKeyByIndex(self, h, a):
        import bellows.types as t

        i = int(a["index"])
        meta = t.SecurityManagerAPSKeyMetadata(bitmask=t.EmberKeyStructBitmask(0), outgoing_frame_counter=0, incoming_frame_counter=0, ttl_in_seconds=0)
        if i >= self.K or self.keys[i] is None:
            return {"status": t.sl_Status.NOT_FOUND, "key_data": meta}
        e, k = self.keys[i]
        eui = t.EUI64.deserialize(e)[0]
        ctx_t = h.COMMANDS["exportLinkKeyByIndex"][2].get("context")
        out = {"status": t.sl_Status.OK, "eui64": eui, "plaintext_key": k, "key_data": meta}
        if ctx_t is not None:
            out["context"] = ctx_t(core_key_type=t.SecurityManagerKeyType.APP_LINK, key_index=i, derived_type=t.SecurityManagerDerivedKeyTypeV13.NONE,
                                   eui64=eui, multi_network_index=0, flags=t.SecurityManagerContextFlags.EUI_IS_VALID, psa_key_alg_permission=0)
        return out

    def cmd_setChildData(self, h, a):
        import bellows.types as t

        cd = a["child_data"]
        # the child table is as large as the host configured it since the last boot (the firmware's own default is small)
        cap = self.config.get(int(t.EzspConfigId.CONFIG_MAX_END_DEVICE_CHILDREN), 2)
        if int(a["index"]) >= cap:
            return {"status": self.st("setChildData", False, t.EmberStatus.INDEX_OUT_OF_RANGE)}
        self.children[int(a["index"])] = (bytes(cd.eui64.serialize()), int(cd.id), cd.type)

    def cmd_getChildData(self, h, a):
        import bellows.types as t

        i = int(a["index"])
        rx = h.COMMANDS["getChildData"][2]
        if i not in self.children:
            return {"status": self.st("getChildData", False, t.EmberStatus.NOT_JOINED, t.sl_Status.NOT_JOINED)}
        e, nwk, tp = self.children[i]
        eui = t.EUI64.deserialize(e)[0]
        if "childId" in rx:
            return {"childId": nwk, "childEui64": eui, "childType": tp}
        fname = "childData" if "childData" in rx else "child_data"
        st_t = rx[fname]
        kw = dict(eui64=eui, type=tp, id=nwk, phy=0, power=0, timeout=0)
        if "timeout_remaining" in [f.name for f in st_t.fields]:
            kw["timeout_remaining"] = 0
        return {fname: st_t(**kw)}

    def cmd_getAddressTableRemoteNodeId(self, h, a):
        return {"nodeId": 0xFFFF}

    def cmd_getAddressTableInfo(self, h, a):
        import bellows.types as t

        return {"status": t.sl_Status.FAIL}
