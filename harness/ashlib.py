"""Helpers shared by the ASH checks (C01–C05): frame <-> line-protocol text, fake transport,
stub upper layer, event recording from the real AshProtocol."""
from __future__ import annotations


def hx(b) -> str:
    b = bytes(b)
    return b.hex() if b else "-"


def unhx(s: str) -> bytes:
    return b"" if s == "-" else bytes.fromhex(s)


def frame_str(f) -> str:
    import bellows.ash as ash

    if isinstance(f, ash.DataFrame):
        return f"D:{int(f.frm_num)}:{int(bool(f.re_tx))}:{int(f.ack_num)}:{hx(f.ezsp_frame)}"
    if isinstance(f, ash.AckFrame):
        return f"A:{int(f.res)}:{int(bool(f.ncp_ready))}:{int(f.ack_num)}"
    if isinstance(f, ash.NakFrame):
        return f"N:{int(f.res)}:{int(bool(f.ncp_ready))}:{int(f.ack_num)}"
    if isinstance(f, ash.RStackFrame):
        return f"K:{int(f.version)}:{int(f.reset_code)}"
    if isinstance(f, ash.ErrorFrame):
        return f"E:{int(f.version)}:{int(f.reset_code)}"
    if isinstance(f, ash.RstFrame):
        return "R"
    raise TypeError(f)


def mk_frame(s: str):
    import bellows.ash as ash
    import bellows.types as t

    p = s.split(":")
    k = p[0]
    if k == "D":
        return ash.DataFrame(frm_num=int(p[1]), re_tx=bool(int(p[2])), ack_num=int(p[3]), ezsp_frame=unhx(p[4]))
    if k == "A":
        return ash.AckFrame(res=int(p[1]), ncp_ready=int(p[2]), ack_num=int(p[3]))
    if k == "N":
        return ash.NakFrame(res=int(p[1]), ncp_ready=int(p[2]), ack_num=int(p[3]))
    if k == "R":
        return ash.RstFrame()
    if k == "K":
        return ash.RStackFrame(version=int(p[1]), reset_code=t.NcpResetCode(int(p[2])))
    if k == "E":
        return ash.ErrorFrame(version=int(p[1]), reset_code=t.NcpResetCode(int(p[2])))
    raise ValueError(s)


class Transport:
    def __init__(self, log):
        self.log = log
        self.closing = False

    def write(self, data):
        self.log.append("W" + hx(data))

    def is_closing(self):
        return self.closing

    def close(self):
        self.closing = True


class Upper:
    """stub of the layer above AshProtocol (the Gateway)"""

    def __init__(self, log):
        self.log = log

    def data_received(self, data):
        self.log.append("U" + hx(data))

    def reset_received(self, code):
        self.log.append(f"R{int(code)}")

    def error_received(self, code):
        # NCP failure notification (ERROR frame, ACK budget exhausted): "reports its code upward"
        self.log.append(f"R{int(code)}")

    def connection_made(self, p):
        pass

    def connection_lost(self, exc):
        self.log.append("L")

    def eof_received(self):
        self.log.append("F")


def make_proto(rx_seq=0, tx_seq=0):
    import bellows.ash as ash

    log = []
    p = ash.AshProtocol(Upper(log))
    p._transport = Transport(log)
    p._rx_seq = rx_seq
    p._tx_seq = tx_seq
    return p, log


def evs(log, start=0) -> str:
    part = log[start:]
    return ",".join(part) if part else "."


# ---- independent (bellows-free) ASH encoder / decoder used by the simulated NCP and the oracles ----
def _lfsr(n):
    out, r = [], 0x42
    for _ in range(n):
        out.append(r)
        r = (r >> 1) ^ 0xB8 if r & 1 else r >> 1
    return out


RAND = _lfsr(256)
RESERVED = {0x7E, 0x7D, 0x11, 0x13, 0x18, 0x1A}


def crc16(data: bytes) -> int:
    c = 0xFFFF
    for b in data:
        c ^= b << 8
        for _ in range(8):
            c = ((c << 1) ^ 0x1021) & 0xFFFF if c & 0x8000 else (c << 1) & 0xFFFF
    return c


def spec_stuff(raw: bytes) -> bytes:
    out = bytearray()
    for c in raw:
        if c in RESERVED:
            out += bytes([0x7D, c ^ 0x20])
        else:
            out.append(c)
    return bytes(out)


def spec_wire(kind, *, frm=0, retx=0, ack=0, payload=b"", code=0x0B) -> bytes:
    """kind in D A N R K E -> stuffed bytes with the closing flag"""
    if kind == "D":
        body = bytes([frm << 4 | retx << 3 | ack]) + bytes(x ^ y for x, y in zip(payload, RAND))
    elif kind == "A":
        body = bytes([0x80 | ack])
    elif kind == "N":
        body = bytes([0xA0 | ack])
    elif kind == "R":
        body = b"\xc0"
    elif kind == "K":
        body = bytes([0xC1, 2, code])
    elif kind == "E":
        body = bytes([0xC2, 2, code])
    else:
        raise ValueError(kind)
    c = crc16(body)
    return spec_stuff(body + bytes([c >> 8, c & 0xFF])) + b"\x7e"


def spec_decode(b: bytes):
    """stuffed wire bytes (optional CANCEL prefix, closing FLAG) -> tuple or None when invalid"""
    if b[:1] == b"\x1a":
        b = b[1:]
    if not b or b[-1] != 0x7E:
        return None
    raw, esc = bytearray(), False
    for c in b[:-1]:
        if esc:
            if (c ^ 0x20) not in RESERVED:
                return None
            raw.append(c ^ 0x20)
            esc = False
        elif c == 0x7D:
            esc = True
        elif c in RESERVED:
            return None
        else:
            raw.append(c)
    if len(raw) < 3 or crc16(bytes(raw[:-2])) != (raw[-2] << 8 | raw[-1]):
        return None
    c0, data = raw[0], bytes(raw[1:-2])
    if c0 < 0x80:
        return ("D", c0 >> 4 & 7, c0 >> 3 & 1, c0 & 7, bytes(x ^ y for x, y in zip(data, RAND)))
    if c0 < 0xA0:
        return ("A", c0 & 7)
    if c0 < 0xC0:
        return ("N", c0 & 7)
    if c0 == 0xC0:
        return ("R",)
    if c0 == 0xC1 and len(data) == 2:
        return ("K", data[1])
    if c0 == 0xC2 and len(data) == 2:
        return ("E", data[1])
    return None
