"""Helpers shared by the ASH checks (C01–C05): frame <-> line-protocol text, fake transport,
stub upper layer, event recording from the real AshProtocol."""
from __future__ import annotations


def hx(b) -> str:
    b = bytes(b)
    return b.hex() if b else "-"


def unhx(s: str) -> bytes:
    return b"" if s == "-" else bytes.fromhex(s)


def frame_str(f) -> str:
    import bellows.ash as ash

    if isinstance(f, ash.DataFrame):
        return f"D:{int(f.frm_num)}:{int(bool(f.re_tx))}:{int(f.ack_num)}:{hx(f.ezsp_frame)}"
    if isinstance(f, ash.AckFrame):
        return f"A:{int(f.res)}:{int(bool(f.ncp_ready))}:{int(f.ack_num)}"
    if isinstance(f, ash.NakFrame):
        return f"N:{int(f.res)}:{int(bool(f.ncp_ready))}:{int(f.ack_num)}"
    if isinstance(f, ash.RStackFrame):
        return f"K:{int(f.version)}:{int(f.reset_code)}"
    if isinstance(f, ash.ErrorFrame):
        return f"E:{int(f.version)}:{int(f.reset_code)}"
    if isinstance(f, ash.RstFrame):
        return "R"
    raise TypeError(f)


def mk_frame(s: str):
    import bellows.ash as ash
    import bellows.types as t

    p = s.split(":")
    k = p[0]
    if k == "D":
        return ash.DataFrame(frm_num=int(p[1]), re_tx=bool(int(p[2])), ack_num=int(p[3]), ezsp_frame=unhx(p[4]))
    if k == "A":
        return ash.AckFrame(res=int(p[1]), ncp_ready=int(p[2]), ack_num=int(p[3]))
    if k == "N":
        return ash.NakFrame(res=int(p[1]), ncp_ready=int(p[2]), ack_num=int(p[3]))
    if k == "R":
        return ash.RstFrame()
    if k == "K":
        return ash.RStackFrame(version=int(p[1]), reset_code=t.NcpResetCode(int(p[2])))
    if k == "E":
        return ash.ErrorFrame(version=int(p[1]), reset_code=t.NcpResetCode(int(p[2])))
    raise ValueError(s)


class Transport:
    def __init__(self, log):
        self.log = log
        self.closing = False

    def write(self, data):
        self.log.append("W" + hx(data))

    def is_closing(self):
        return self.closing

    def close(self):
        self.closing = True


class Upper:
    """stub of the layer above AshProtocol (the Gateway)"""

    def __init__(self, log):
        self.log = log

    def data_received(self, data):
        self.log.append("U" + hx(data))

    def reset_received(self, code):
        self.log.append(f"R{int(code)}")

    def connection_made(self, p):
        pass

    def connection_lost(self, exc):
        self.log.append("L")

    def eof_received(self):
        self.log.append("F")


def make_proto(rx_seq=0, tx_seq=0):
    import bellows.ash as ash

    log = []
    p = ash.AshProtocol(Upper(log))
    p._transport = Transport(log)
    p._rx_seq = rx_seq
    p._tx_seq = tx_seq
    return p, log


def evs(log, start=0) -> str:
    part = log[start:]
    return ",".join(part) if part else "."
