"""Byte-level simulated NCP: ASH link end (RST/RSTACK, DATA/ACK, go-back-N is not needed here: the
host has a window of one) plus an EZSP command layer of protocol version `n` that answers the version
query in the legacy format, switches to its native frame format once the host has confirmed the
version, ignores frames that are not in a format it currently accepts (and records them as
mis-framed), and answers every other command from a table of handlers (default: a decodable
all-zero "success" response built from the rx schema by field).

Independent of bellows for the link and header layer (harness.ashlib spec codec); command payloads are
decoded / encoded *by field name* with the repository's schemas of the active version."""
from __future__ import annotations

import importlib

from harness import ashlib, ezsplib


class Ncp:
    def __init__(self, version: int, stack_type=2, stack_version=0x7400):
        self.n = version
        self.tables_v = min(max(version, 4), 14)
        self.commands = importlib.import_module(f"bellows.ezsp.v{self.tables_v}.commands").COMMANDS
        self.by_id = {cid: (name, tx, rx) for name, (cid, tx, rx) in self.commands.items()}
        self.stack_type, self.stack_version = stack_type, stack_version
        self.handlers = {}
        self.config = {}
        self.values = {}
        self.reset_link()
        self.rx_frames = []  # every EZSP frame received: (format, seq, id or None, payload, raw)
        self.misframed = []
        self.out = []  # bytes to the host
        self.reset_code = 0x0B
        self.silent = False
        self.drop_next_rx = 0
        self.drop_next_tx = 0
        self.cb_seq = 0
        # a reset takes time: with boot_delay > 0 the NCP is deaf after an RST and announces itself (RSTACK) when it is up again;
        # `defer(delay, fn)` is provided by the world the NCP lives in
        self.boot_delay = 0.0
        self.booting = False
        self.boot_gen = 0
        self.defer = None

    def _booted(self, gen):
        if gen != self.boot_gen:
            return  # another reset restarted the boot
        self.booting = False
        self._send(ashlib.spec_wire("K", code=self.reset_code))

    # ------------------------------------------------------------------ link
    def reset_link(self):
        self.rx_seq = 0
        self.tx_seq = 0
        self.native = False  # version confirmed: native format only
        self.buf = b""
        self.last_data = None
        self.unacked = None

    def receive(self, data: bytes):
        self.buf += data
        while b"\x7e" in self.buf:
            seg, self.buf = self.buf.split(b"\x7e", 1)
            if b"\x1a" in seg:
                seg = seg.rsplit(b"\x1a", 1)[1]
            if not seg:
                continue
            self._frame(seg + b"\x7e")

    def _send(self, wire: bytes):
        if self.drop_next_tx > 0:
            self.drop_next_tx -= 1
            return
        self.out.append(wire)

    def _frame(self, wire: bytes):
        if self.silent:
            return
        if self.drop_next_rx > 0:
            self.drop_next_rx -= 1
            return
        f = ashlib.spec_decode(wire)
        if f is None:
            self._send(ashlib.spec_wire("N", ack=self.rx_seq))
            return
        ua = getattr(self, "unacked", None)
        if ua is not None and f[0] in ("D", "A", "N"):
            acknum = f[3] if f[0] == "D" else f[-1] if f[0] in ("A", "N") else None
            if acknum == (ua[0] + 1) % 8:
                self.unacked = None
        if f[0] == "R":
            self.reset_link()
            if self.boot_delay and self.defer is not None:
                self.booting = True
                self.boot_gen += 1
                self.defer(self.boot_delay, lambda g=self.boot_gen: self._booted(g))
                return
            if getattr(self, "drop_tx_after_reset", 0):
                # the line loses the first frames the NCP sends after its RSTACK (its retransmissions, marked reTx, recover them)
                self.drop_tx_pending = self.drop_tx_after_reset
                self.drop_tx_after_reset = 0
            if getattr(self, "drop_rx_after_reset", 0):
                # the line loses the next frames the host sends after the handshake (its retransmissions recover them)
                self.drop_next_rx = self.drop_rx_after_reset
                self.drop_rx_after_reset = 0
            k = ashlib.spec_wire("K", code=self.reset_code)
            # (a line that duplicates a frame delivers both copies back to back: one read carries two RSTACKs)
            self._send(k + k if getattr(self, "dup_rstack", False) else k)
            if getattr(self, "drop_tx_pending", 0):
                self.drop_next_tx = self.drop_tx_pending
                self.drop_tx_pending = 0
            return
        if self.booting:
            return
        if f[0] == "D":
            _, frm, retx, ack, payload = f
            if frm == self.rx_seq:
                self.rx_seq = (self.rx_seq + 1) % 8
                resp = self._ezsp(payload)
                if resp is None:
                    self._send(ashlib.spec_wire("A", ack=self.rx_seq))
                else:
                    self.last_data = resp
                    self.unacked = (self.tx_seq, resp)
                    self._send(ashlib.spec_wire("D", frm=self.tx_seq, ack=self.rx_seq, payload=resp))
                    self.tx_seq = (self.tx_seq + 1) % 8
            elif retx:
                self._send(ashlib.spec_wire("A", ack=self.rx_seq))
                # the host repeats its request: the answer never reached it (or its acknowledgement got lost).  A real NCP
                # retransmits its unacknowledged DATA frame on its own timer, marked reTx; this one does it here
                ua = getattr(self, "unacked", None)
                if ua is not None and getattr(self, "retransmit_unacked", True):
                    self._send(ashlib.spec_wire("D", frm=ua[0], retx=1, ack=self.rx_seq, payload=ua[1]))
            else:
                self._send(ashlib.spec_wire("N", ack=self.rx_seq))
        # ACK / NAK from the host: window of one, nothing to do in this simulator

    def callback(self, name, **fields):
        """NCP-originated frame (callback)"""
        cid, _, rx = self.commands[name]
        body = self._encode(rx, fields)
        payload = self._header(self.cb_seq, cid, callback=True) + body
        self._send(ashlib.spec_wire("D", frm=self.tx_seq, ack=self.rx_seq, payload=payload))
        self.tx_seq = (self.tx_seq + 1) % 8

    # ------------------------------------------------------------------ EZSP
    def native_fmt(self):
        return "v4" if self.n < 5 else ("v5" if self.n < 8 else "v8")

    def _header(self, seq, cid, callback=False):
        fmt = self.native_fmt() if self.native else "v4"
        fc = 0x90 if callback else 0x80
        if fmt == "v4":
            return bytes([seq, fc, cid & 0xFF])
        if fmt == "v5":
            return bytes([seq, fc, 0xFF, 0x00, cid & 0xFF])
        return bytes([seq, fc, 0x01, cid & 0xFF, cid >> 8])

    def _parse(self, p: bytes):
        """-> (format, seq, id, payload) for every format the bytes could be in"""
        out = []
        if len(p) >= 3 and p[2] != 0xFF:
            out.append(("v4", p[0], p[2], p[3:]))
        if len(p) >= 5 and p[2] == 0xFF:
            out.append(("v5", p[0], p[4], p[5:]))
        if len(p) >= 5 and p[2] == 0x01:
            out.append(("v8", p[0], p[3] | p[4] << 8, p[5:]))
        return out

    def _ezsp(self, p: bytes):
        cands = self._parse(p)
        accepted = None
        for fmt, seq, cid, body in cands:
            if not self.native:
                # before the version is confirmed only a version command is meaningful, in the legacy
                # format or already in the native one
                if cid == 0 and len(body) == 1 and fmt in ("v4", self.native_fmt()):
                    accepted = (fmt, seq, cid, body)
                    break
            elif fmt == self.native_fmt():
                accepted = (fmt, seq, cid, body)
                break
        self.rx_frames.append({"native": self.native, "raw": p.hex(), "accepted": accepted is not None,
                               "fmt": accepted[0] if accepted else None, "id": accepted[2] if accepted else None})
        if accepted is None:
            self.misframed.append(p.hex())
            return None
        fmt, seq, cid, body = accepted
        self.cb_seq = seq
        if cid == 0:  # version
            desired = body[0]
            if fmt == "v4" and not self.native:
                resp_native = False
            else:
                resp_native = True
            if desired == self.n and (fmt == self.native_fmt()):
                self.native = True
            was = self.native
            # the reply to a legacy-format query is in the legacy format
            self.native = self.native if fmt != "v4" or self.n < 5 else False
            hdr = self._header(seq, 0)
            self.native = was
            return hdr + bytes([self.n, self.stack_type, self.stack_version & 0xFF, self.stack_version >> 8])
        if cid not in self.by_id:
            inv = self.commands["invalidCommand"][0]
            return self._header(seq, inv) + self._encode(self.commands["invalidCommand"][2], {})
        name, tx, rx = self.by_id[cid]
        args = self._decode(tx, body)
        h = self.handlers.get(name, self._default)
        fields = h(name, args)
        if fields is None:
            return None
        return self._header(seq, cid) + self._encode(rx, fields)

    def _decode(self, schema, body):
        try:
            if isinstance(schema, dict):
                out, data = {}, body
                for k, tp in schema.items():
                    out[k], data = tp.deserialize(data)
                return out
            v, _ = schema.deserialize(body)
            return {"<single>": v}
        except Exception:
            return None

    def _encode(self, schema, fields):
        """by field name; missing fields are all-zero"""
        import random

        rng = random.Random(0)
        if isinstance(schema, dict):
            out = b""
            for k, tp in schema.items():
                if k in fields:
                    v = fields[k]
                    out += v if isinstance(v, (bytes, bytearray)) else tp(v).serialize()
                else:
                    out += ezsplib.gen(ezsplib.desc(tp), rng, "zero")[1]
            return out
        if "<single>" in fields:
            return fields["<single>"].serialize()
        return ezsplib.gen(ezsplib.desc(schema), rng, "zero")[1]

    def _default(self, name, args):
        if name == "getConfigurationValue" and args:
            cid = int(args["configId"])
            return {"value": self.config.get(cid, 0)}
        if name == "setConfigurationValue" and args:
            self.config[int(args["configId"])] = int(args["value"])
            self.config_order = getattr(self, "config_order", []) + [int(args["configId"])]
            return {}
        if name == "getValue" and args:
            import bellows.types as t

            v = self.values.get(int(args["valueId"]), b"\x00")
            return {"value": t.LVBytes(v).serialize()}
        if name == "setValue" and args:
            self.values[int(args["valueId"])] = bytes(args["value"])
            return {}
        return {}
