"""Differential check of the *generated* `ProtocolHandler.command` (BV/Gen/SrcCmd.lean over BV/Py/CmdEnv.lean) against the real
coroutine: the same script of what the environment does at the await points is played to both - to the real code on the virtual
loop with a gateway stub, to the generated definition through the driver (`c06src ...`).  This is what ties the hand-written
environment model (semaphore entry, hand-over, bounded wait, future states) to asyncio's behaviour."""
from __future__ import annotations

import asyncio

from harness import ezsplib, vloop
from harness.ashlib import hx


def _exc(name):
    return {"CancelledError": asyncio.CancelledError, "ConnectionResetError": ConnectionResetError,
            "OSError": OSError, "TimeoutError": asyncio.TimeoutError}[name]


class _Gw:
    def __init__(self, world):
        self.w = world

    async def send_data(self, data):
        w = self.w
        w.sent.append(bytes(data))
        item = w.script.pop(0) if w.script else None
        if item is None or item[0] != "S":
            raise RuntimeError("script does not fit")
        for f in item[1]:
            w.e.frame_received(f)
        if item[2]:
            raise _exc(item[2])()


class World:
    def __init__(self, version, seq0, entries):
        import bellows.ezsp as ezsp

        self.loop = vloop.VLoop().install()
        self.version = version
        self.sent, self.cbs, self.script = [], [], []
        self.e = ezsp.EZSP({"path": "/dev/null"})
        self.gw = _Gw(self)
        self.e._gw = self.gw
        self.h = ezsp.EZSP._BY_VERSION[version](self.e.handle_callback, self.gw)
        self.e._protocol = self.h
        self.h._seq = seq0
        self.e.start_ezsp()
        self.e.add_callback(self._cb)
        for sq, cid, st in entries:
            fut = self.loop.create_future()
            if st == "f":
                fut.cancel()
            self.h._awaiting[sq] = (cid, self.h.COMMANDS_BY_ID.get(cid, (None, None, {}))[2], fut)

    def _cb(self, name, args):
        rx = self.h.COMMANDS[name][2]
        fields = ezsplib.schema_fields(rx)
        try:
            if len(fields) == 1 and fields[0][0] == "<single>":
                vals = [ezsplib.canon(fields[0][2], args)]
            else:
                vals = [ezsplib.canon(d, a) for (_, _, d), a in zip(fields, args)]
            self.cbs.append(f"{name}:[{','.join(vals)}]")
        except Exception as e:  # noqa: BLE001
            self.cbs.append(f"{name}:canon-raised:{type(e).__name__}")

    def close(self):
        self.loop.shutdown()


def canon_result(h, name, r):
    rx = h.COMMANDS[name][2]
    fields = ezsplib.schema_fields(rx)
    if len(fields) == 1 and fields[0][0] == "<single>":
        return "[" + ezsplib.canon(fields[0][2], r) + "]"
    return "[" + ",".join(ezsplib.canon(d, a) for (_, _, d), a in zip(fields, r)) + "]"


def play(version, seq0, entries, name, args, script):
    """-> canonical outcome string of the real code"""
    w = World(version, seq0, entries)
    try:
        w.script = [list(x) for x in script]
        h, loop = w.h, w.loop
        first = w.script.pop(0)
        holder = None
        if first == ["A0"] or first[0] == "A0":
            holder = h._send_semaphore(priority=10 ** 6)
            loop.run_until_complete(holder.__aenter__()) if False else None
            t0 = loop.create_task(holder.__aenter__())
            loop.settle()
            assert t0.done()
        task = loop.create_task(h.command(name, *args))
        loop.settle()
        if holder is not None:
            task.cancel()
            loop.settle()
            t1 = loop.create_task(holder.__aexit__(None, None, None))
            loop.settle()
        else:
            # (when the reply came while send_data was running the call is over by now; what arrives next arrives all the same)
            item = w.script.pop(0) if w.script else None
            if item is not None and item[0] == "W":
                loop.iterate([(w.e.frame_received, f) for f in item[1]])
                loop.settle()
                if not task.done():
                    if item[2] == "D":
                        loop.fire_next_timer()
                    else:
                        task.cancel()
                    loop.settle()
        if not task.done():
            task.cancel()
            loop.settle()
            out = "hang"
        elif task.cancelled():
            out = "raised:CancelledError"
        elif task.exception() is not None:
            out = f"raised:{type(task.exception()).__name__}"
        else:
            try:
                out = "ok:" + canon_result(h, name, task.result())
            except Exception as e:  # noqa: BLE001
                out = f"ok:canon-raised:{type(e).__name__}"
        aw = ",".join(f"{k}.{v[0]}" for k, v in h._awaiting.items())
        locked = h._send_semaphore.locked()
        return f"{out}|seq={h._seq}|aw={aw}|sent={','.join(hx(b) for b in w.sent)}|cbs={';'.join(w.cbs)}|locked={int(locked)}"
    finally:
        w.close()


def model_line(version, seq0, entries, name, vals, script):
    def fr(fs):
        return ",".join(hx(f) if f else "-" for f in fs) if fs else "-"
    toks = []
    for it in script:
        if it[0] in ("A0", "A1"):
            toks.append(it[0])
        elif it[0] == "S":
            toks.append(f"S/{fr(it[1])}/{it[2] or '-'}")
        else:
            toks.append(f"W/{fr(it[1])}/{it[2]}")
    ent = ";".join(f"{a}.{b}.{c}" for a, b, c in entries) or "-"
    return f"c06src {version} {seq0} {ent} {name} [{','.join(vals)}] {';'.join(toks)}"


def canon_model(m):
    """model output -> the implementation's canonical form"""
    parts = m.split("|")
    if len(parts) != 5:
        return m
    out, seq, aw, _futs, evs = parts
    ev = [e for e in evs.split(",") if e] if evs else []
    # values may contain commas: re-split on the event prefixes
    ev, cur = [], ""
    for tok in (evs.split(",") if evs else []):
        if tok.split(":")[0] in ("cb", "sent", "acq", "rel", "wait") and cur:
            ev.append(cur)
            cur = tok
        else:
            cur = tok if not cur else cur + "," + tok
    if cur:
        ev.append(cur)
    sent = [e[5:] for e in ev if e.startswith("sent:")]
    cbs = [e[3:] for e in ev if e.startswith("cb:")]
    acq = sum(1 for e in ev if e.startswith("acq:"))
    rel = sum(1 for e in ev if e == "rel")
    return f"{out}|{seq}|{aw}|sent={','.join(sent)}|cbs={';'.join(cbs)}|locked={int(acq != rel)}"


CANDIDATES = ["getValue", "nop", "getEui64", "getNodeId", "setConfigurationValue", "getConfigurationValue", "networkState", "sendUnicast",
              "getNetworkParameters", "readCounters", "setPolicy", "getMfgToken", "lookupEui64ByNodeId", "version"]


def gen_cases(ctx):
    import importlib

    rng = ctx.rng
    cases = []
    n = ctx.n(400, 3000)
    for i in range(n):
        version = rng.choice([4, 5, 7, 8, 9, 12, 13, 14])
        mod = importlib.import_module(f"bellows.ezsp.v{version}.commands")
        names = [c for c in CANDIDATES if c in mod.COMMANDS]
        if i % 7 == 0:
            names = sorted(mod.COMMANDS)
        name = rng.choice(names)
        cid, tx, rx = mod.COMMANDS[name]
        txf, rxf = ezsplib.schema_fields(tx), ezsplib.schema_fields(rx)
        if any(ezsplib.has(d, ("inv", "cond")) for _, _, d in txf + rxf) or (txf and txf[0][0] == "<single>"):
            continue
        seq0 = rng.choice([0, 1, 127, 254, 255, rng.randrange(256)])
        mode = rng.choice(["zero", "max", "rand", "rand"])
        parts = [ezsplib.gen(d, rng, mode, k == len(txf) - 1) for k, (_, _, d) in enumerate(txf)]
        vals = [p[0] for p in parts]
        args, data = [], b"".join(p[1] for p in parts)
        try:
            for _, tp, _ in txf:
                v, data = tp.deserialize(data)
                args.append(v)
        except Exception:  # noqa: BLE001
            continue
        if "a" in vals:
            continue  # an absent optional tail cannot be passed positionally
        # ---- frames the NCP may send
        def reply(sq=seq0, cid_=cid, rxf_=rxf, m="rand"):
            ps = [ezsplib.gen(d, rng, m, k == len(rxf_) - 1) for k, (_, _, d) in enumerate(rxf_)]
            return ezsplib.spec_header(version, sq, cid_) + b"".join(p[1] for p in ps)

        others = [c for c in mod.COMMANDS if c != name and not any(ezsplib.has(d, ("inv", "cond")) for _, _, d in ezsplib.schema_fields(mod.COMMANDS[c][2]))]

        def frame(kind):
            if kind == "own":
                return reply()
            if kind == "other-seq":
                return reply(sq=(seq0 + rng.choice([1, 2, 255, 128])) % 256)
            if kind == "wrong-id":
                o = rng.choice(others)
                return reply(cid_=mod.COMMANDS[o][0], rxf_=ezsplib.schema_fields(mod.COMMANDS[o][2]))
            if kind == "callback":
                o = rng.choice(others)
                return reply(sq=rng.randrange(256), cid_=mod.COMMANDS[o][0], rxf_=ezsplib.schema_fields(mod.COMMANDS[o][2]))
            if kind == "invalid" and "invalidCommand" in mod.COMMANDS:
                return reply(cid_=mod.COMMANDS["invalidCommand"][0], rxf_=ezsplib.schema_fields(mod.COMMANDS["invalidCommand"][2]))
            if kind == "short":
                return reply()[: rng.randrange(0, 4)]
            if kind == "trunc":
                r = reply(m="max")
                return r[: max(1, len(r) - rng.randrange(1, 3))]
            if kind == "unknown-id":
                return ezsplib.spec_header(version, seq0, 0xFE if version < 8 else 0xFFEE) + bytes(rng.getrandbits(8) for _ in range(3))
            return reply()

        kinds = ["own", "own", "other-seq", "wrong-id", "callback", "invalid", "short", "trunc", "unknown-id", "own"]

        def some(k):
            return [frame(rng.choice(kinds)) for _ in range(k)]
        shape = rng.choice(["plain", "plain", "plain", "early", "noise", "none", "sendfail", "cancel-send", "queued-cancel", "cancel-wait", "dup",
                            "unknown-name", "few-args"])
        if shape == "few-args" and not txf:
            shape = "unknown-name"
        if shape == "unknown-name":
            # the frame cannot be built: KeyError before anything is registered or sent; the semaphore is given back
            name, args, vals = "noSuchCommand", [], []
            script = [["A1"]]
        elif shape == "few-args":
            args, vals = args[:-1], vals[:-1]
            script = [["A1"]]
        elif shape == "plain":
            script = [["A1"], ["S", [], None], ["W", [frame("own")], "D"]]
        elif shape == "early":   # the reply arrives while send_data is still running
            script = [["A1"], ["S", some(rng.randrange(1, 3)) + [frame("own")], None], ["W", some(rng.randrange(0, 2)), "D"]]
        elif shape == "noise":
            script = [["A1"], ["S", some(rng.randrange(0, 3)), None], ["W", some(rng.randrange(1, 5)), rng.choice("DC")]]
        elif shape == "none":
            script = [["A1"], ["S", [], None], ["W", [frame(k) for k in rng.sample(["other-seq", "callback", "short", "unknown-id"], 2)], "D"]]
        elif shape == "sendfail":
            script = [["A1"], ["S", some(rng.randrange(0, 2)), rng.choice(["ConnectionResetError", "OSError"])]]
        elif shape == "cancel-send":
            script = [["A1"], ["S", some(rng.randrange(0, 2)), "CancelledError"]]
        elif shape == "queued-cancel":
            script = [["A0"]]
        elif shape == "cancel-wait":
            script = [["A1"], ["S", [], None], ["W", some(rng.randrange(0, 2)), "C"]]
        else:
            own = frame("own")
            script = [["A1"], ["S", [], None], ["W", [own, own, frame("own")], "D"]]
        # ---- entries somebody else left in the table (none after the repair of the dead-entry defect, but the code must cope)
        entries = []
        if rng.random() < 0.35:
            for _ in range(rng.randrange(1, 3)):
                sq = rng.choice([seq0, (seq0 + 1) % 256, rng.randrange(256)])
                if all(e[0] != sq for e in entries):
                    entries.append((sq, rng.choice([cid, mod.COMMANDS[rng.choice(others)][0]]), rng.choice("pf")))
        cases.append((version, seq0, entries, name, args, vals, script, shape))
    return cases


def run_cases(ctx):
    cs = gen_cases(ctx)
    impl = []
    for (version, seq0, entries, name, args, vals, script, shape) in cs:
        try:
            impl.append(play(version, seq0, entries, name, args, script))
        except Exception as e:  # noqa: BLE001
            impl.append(f"harness-raised:{type(e).__name__}:{e}")
    model = ctx.driver([model_line(v, s0, en, nm, vals, sc) for (v, s0, en, nm, args, vals, sc, shape) in cs])
    for i, (c, got) in enumerate(zip(cs, impl)):
        (version, seq0, entries, name, args, vals, script, shape) = c
        ctx.cov["evaluations"] += 1
        ctx.count(f"src-script:{shape}")
        ctx.count("src-outcome:" + got.split("|")[0].split(":")[0] + (":" + got.split("|")[0].split(":")[1] if got.startswith("raised") else ""))
        if model is None:
            continue
        want = canon_model(model[i])
        if want != got:
            ctx.corr_diff(f"generated ProtocolHandler.command differs from the real coroutine ({shape} script, v{version} {name})",
                          {"version": version, "seq0": seq0, "entries": [list(e) for e in entries], "name": name, "vals": vals,
                           "script": [[s[0]] + ([[hx(f) for f in s[1]], s[2]] if len(s) > 1 else []) for s in script]},
                          got[:400], want[:400])
    return len(cs)
