"""Harness-side environment repairs (nothing here touches /repo).

(a) the installed zigpy (2.2.0) no longer has `zigpy.util.Requests`, which
    bellows' ControllerApplication.__init__ uses; install an equivalent.
(b) helpers to build a ControllerApplication with a stub EZSP.
"""
import asyncio

import zigpy.exceptions
import zigpy.util


class _Req:
    def __init__(self, pending, seq):
        self._pending = pending
        self._seq = seq
        self._result = asyncio.get_running_loop().create_future()

    @property
    def result(self):
        return self._result

    @property
    def sequence(self):
        return self._seq

    def __enter__(self):
        self._pending[self._seq] = self
        return self

    def __exit__(self, *a):
        self._pending.pop(self._seq)
        return False


class Requests(dict):
    def new(self, sequence):
        if sequence in self:
            raise zigpy.exceptions.ControllerException(f"duplicate {sequence} TSN")
        return _Req(self, sequence)


def install():
    if not hasattr(zigpy.util, "Requests"):
        zigpy.util.Requests = Requests


def make_app(extra=None):
    """ControllerApplication on a raw dict config (as the repository's tests do)."""
    install()
    import bellows.zigbee.application as app_mod

    cfg = {"device": {"path": "/dev/null"}, "database_path": None}
    if extra:
        cfg.update(extra)
    return app_mod.ControllerApplication(cfg)
