"""Deterministic asyncio loop: virtual clock, stepped one `_run_once` at a time.

`iterate(batch)` runs exactly one loop iteration in which the callbacks of `batch` sit at the position
real I/O callbacks take (behind the wake-ups already queued, before the timers that are due).
`settle()` iterates until the ready queue is empty.  Time only moves when the harness says so.
"""
import asyncio
import heapq
import selectors


def _noop():
    pass


class VLoop(asyncio.SelectorEventLoop):
    def __init__(self):
        super().__init__(selectors.SelectSelector())
        self._vt = 0.0
        self._clock_resolution = 1e-9

    def time(self):
        return self._vt

    def install(self):
        asyncio.set_event_loop(self)
        asyncio.events._set_running_loop(self)
        return self

    def uninstall(self):
        asyncio.events._set_running_loop(None)
        asyncio.set_event_loop(None)

    def iterate(self, batch=()):
        for cb in batch:
            self.call_soon(*cb)
        self.call_soon(_noop)  # so that select() never blocks
        self._run_once()

    def settle(self, limit=10000):
        n = 0
        while True:
            self.iterate()
            n += 1
            # after an iteration, _ready holds what it scheduled for the next one
            if not self._ready:
                return n
            if n > limit:
                raise RuntimeError("loop does not settle")

    def next_timer(self):
        """earliest armed (non-cancelled) timer deadline, or None"""
        live = [h._when for h in self._scheduled if not h._cancelled]
        return min(live) if live else None

    def set_time(self, t):
        assert t >= self._vt - 1e-12, (t, self._vt)
        self._vt = t

    def fire_next_timer(self, batch=()):
        """move the clock exactly to the next deadline and run one iteration (with `batch` as I/O)"""
        w = self.next_timer()
        if w is None:
            return False
        self.set_time(max(w, self._vt))
        self.iterate(batch)
        self.settle()
        return True

    def shutdown(self):
        try:
            for t in asyncio.all_tasks(self):
                t.cancel()
            for _ in range(5):
                self.iterate()
        except Exception:
            pass
        self.uninstall()
        self.close()
