"""EZSP helpers: Python-side type descriptors (mirroring the translator's lowering), an independent
payload generator/encoder working from the descriptor alone, canonical text for decoded values."""
from __future__ import annotations

import enum
import inspect


def _is(tp, base):
    return inspect.isclass(tp) and issubclass(tp, base)


def desc(tp):
    import zigpy.types as zt

    if tp == ():
        return ("inv",)
    if _is(tp, zt.Struct):
        fs = []
        for f in tp.fields:
            d = desc(f.type)
            if f.optional:
                d = ("opt", d)
            elif f.requires is not None:
                d = ("cond", d)
            fs.append((f.name, d))
        if "deserialize" in tp.__dict__ or "serialize" in tp.__dict__:
            return ("st", fs, "custom")  # same layout; the receive-side quirk is the model's business
        return ("st", fs)
    if _is(tp, zt.basic.FixedIntType):
        bits = tp._bits
        if bits % 8:
            return ("inv",)
        if _is(tp, enum.Enum):
            return ("u", bits // 8)
        return ("s" if tp._signed else "u", bits // 8)
    if _is(tp, zt.LVBytes):
        return ("lv", getattr(tp, "_prefix_length", 1))
    if _is(tp, zt.basic.LVList):
        return ("ll", getattr(tp, "_prefix_length", 1), desc(tp._item_type))
    if _is(tp, zt.basic.FixedList):
        return ("fl", tp._length, desc(tp._item_type))
    if _is(tp, zt.basic.List):
        return ("g", desc(tp._item_type))
    if _is(tp, zt.Bytes):
        return ("rest",)
    return ("inv",)


def schema_fields(s):
    """-> list of (key, type, desc); a non-dict schema is one positional struct"""
    if isinstance(s, dict):
        return [(k, v, desc(v)) for k, v in s.items()]
    if s == ():
        return [("<unit>", None, ("inv",))]
    return [("<single>", s, desc(s))]


def has(d, kinds):
    if d[0] in kinds:
        return True
    if d[0] in ("fl", "ll"):
        return has(d[2], kinds)
    if d[0] in ("g", "opt", "cond"):
        return has(d[1], kinds)
    if d[0] == "st":
        return any(has(x, kinds) for _, x in d[1])
    return False


def gen(d, rng, mode="rand", tail=True):
    """independent encoder: descriptor -> (value text, bytes).  mode: zero | max | rand"""
    k = d[0]
    if k in ("u", "s"):
        n = d[1]
        v = 0 if mode == "zero" else (256**n - 1 if mode == "max" else rng.getrandbits(8 * n))
        return f"n{v}", v.to_bytes(n, "little")
    if k == "lv":
        ln = 0 if mode == "zero" else (rng.choice([1, 7, 40]) if mode == "max" else rng.randint(0, 12))
        b = bytes(rng.getrandbits(8) for _ in range(ln))
        return "b" + b.hex(), ln.to_bytes(d[1], "little") + b
    if k == "fl":
        parts = [gen(d[2], rng, mode) for _ in range(d[1])]
        return "[" + ",".join(p[0] for p in parts) + "]", b"".join(p[1] for p in parts)
    if k == "ll":
        ln = 0 if mode == "zero" else (5 if mode == "max" else rng.randint(0, 4))
        parts = [gen(d[2], rng, mode) for _ in range(ln)]
        return "[" + ",".join(p[0] for p in parts) + "]", ln.to_bytes(d[1], "little") + b"".join(p[1] for p in parts)
    if k == "g":
        ln = 0 if mode == "zero" else (5 if mode == "max" else rng.randint(0, 4))
        parts = [gen(d[1], rng, mode) for _ in range(ln)]
        return "[" + ",".join(p[0] for p in parts) + "]", b"".join(p[1] for p in parts)
    if k == "rest":
        ln = 0 if mode == "zero" else rng.randint(0, 10)
        b = bytes(rng.getrandbits(8) for _ in range(ln))
        return "b" + b.hex(), b
    if k == "st":
        parts = []
        for i, (_, fd) in enumerate(d[1]):
            if fd[0] == "cond":
                # the one conditioned field in the tables is present iff the struct's first field (a status) is 0
                present = parts[0][0] == "n0"
                parts.append(gen(fd[1], rng, mode) if present else ("a", b""))
                continue
            parts.append(gen(fd, rng, mode, tail and i == len(d[1]) - 1))
        return "[" + ",".join(p[0] for p in parts) + "]", b"".join(p[1] for p in parts)
    if k == "opt":
        # an optional field may be absent; at the very end of a payload that is unambiguous.  Elsewhere ("zero" mode only) the
        # value tuple with the field unset is still a value tuple the schema's types accept: it must round-trip as well
        if (tail and (mode == "zero" or (mode == "rand" and rng.random() < 0.5))) or (not tail and mode == "zero"):
            return "a", b""
        return gen(d[1], rng, mode)
    raise ValueError(d)


def canon(d, v):
    """decoded Python value -> value text, by descriptor"""
    k = d[0]
    if k in ("u", "s"):
        return f"n{int(v) & (256 ** d[1] - 1)}"
    if k in ("lv", "rest"):
        return "b" + bytes(v).hex()
    if k == "fl":
        return "[" + ",".join(canon(d[2], x) for x in v) + "]"
    if k == "ll":
        return "[" + ",".join(canon(d[2], x) for x in v) + "]"
    if k == "g":
        return "[" + ",".join(canon(d[1], x) for x in v) + "]"
    if k == "st":
        out = []
        for name, fd in d[1]:
            x = getattr(v, name)
            if fd[0] == "opt":
                out.append("a" if x is None else canon(fd[1], x))
            elif fd[0] == "cond":
                out.append("a" if x is None else canon(fd[1], x))
            else:
                out.append(canon(fd, x))
        return "[" + ",".join(out) + "]"
    raise ValueError(d)


def spec_header(version, seq, cid):
    if version < 5:
        return bytes([seq, 0, cid])
    if version < 8:
        return bytes([seq, 0, 0xFF, 0, cid])
    return bytes([seq, 0, 1, cid & 0xFF, cid >> 8])


def handler(version, cb=None, gw=None):
    import bellows.ezsp as ezsp

    return ezsp.EZSP._BY_VERSION[version](cb or (lambda *a: None), gw)
