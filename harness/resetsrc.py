"""Differential check of the *generated* `Gateway.reset` (BV/Gen/SrcUartReset.lean over BV/Py/UartEnv.lean) against the real
coroutine: the same script of what reaches the gateway while it is suspended - grouped by loop iteration - is played to the real
code on the virtual loop and to the generated definition through the driver (`c11src ...`).  This ties the hand-written part of
the environment (done-callbacks run between iterations, a deadline or a cancellation cancels the awaited future) to asyncio."""
from __future__ import annotations

import asyncio

from harness import vloop
from harness.ashlib import hx


class _App:
    def __init__(self, log):
        self.log = log

    def frame_received(self, data):
        self.log.append("frame:" + hx(bytes(data)))

    def enter_failed_state(self, code):
        self.log.append(f"failed:{int(code)}")

    def connection_lost(self, exc):
        self.log.append("lost")


class _Tr:
    def __init__(self, log):
        self.log = log

    def send_reset(self):
        self.log.append("rst")

    def close(self):
        self.log.append("close")


def play(init, rounds, fin):
    import bellows.types as t
    import bellows.uart as uart

    loop = vloop.VLoop().install()
    try:
        log = []
        done = loop.create_future() if "C" in init else None
        gw = uart.Gateway(_App(log), None, done)
        gw._transport = _Tr(log)
        if "S" in init:
            gw._startup_reset_future = loop.create_future()
        task = loop.create_task(gw.reset())
        loop.settle()
        for r in rounds:
            if task.done():
                break
            batch = []
            for x in r:
                if x[0] == "K":
                    batch.append((gw.reset_received, t.NcpResetCode(int(x[1:]))))
                elif x[0] == "E":
                    batch.append((gw.error_received, t.NcpResetCode(int(x[1:]))))
                elif x == "L0":
                    batch.append((gw.connection_lost, None))
                elif x == "L1":
                    batch.append((gw.connection_lost, Exception("boom")))
                elif x == "F":
                    batch.append((gw.eof_received,))
                elif x[0] == "D":
                    batch.append((gw.data_received, bytes.fromhex(x[1:])))
            loop.iterate(batch)
            loop.settle()
        if not task.done():
            if fin == "D":
                loop.fire_next_timer()
            else:
                task.cancel()
            loop.settle()
        if not task.done():
            out = "hang"
            task.cancel()
            loop.settle()
        elif task.cancelled():
            out = "raised:CancelledError"
        elif task.exception() is not None:
            out = f"raised:{type(task.exception()).__name__}"
        else:
            out = "ok"
        return f"{out}|rf={'true' if gw._reset_future is None else 'false'}|{','.join(log)}"
    finally:
        loop.uninstall()


def run_cases(ctx):
    rng = ctx.rng
    alpha = ["K11", "K11", "K2", "K0", "E81", "E2", "L0", "L1", "F", "Daa55"]
    cases = []
    for init in ("", "S", "C", "SC"):
        for fin in "DC":
            cases.append((init, [], fin))
            for a in alpha:
                cases.append((init, [[a]], fin))
    for _ in range(ctx.n(300, 3000)):
        init = rng.choice(["", "", "S", "C", "SC"])
        rounds = [[rng.choice(alpha) for _ in range(rng.choice([1, 1, 1, 2, 3]))] for _ in range(rng.randint(1, 4))]
        cases.append((init, rounds, rng.choice("DC")))
    impl = []
    for init, rounds, fin in cases:
        try:
            impl.append(play(init, rounds, fin))
        except Exception as e:  # noqa: BLE001
            impl.append(f"harness-raised:{type(e).__name__}:{e}")
    model = ctx.driver([f"c11src {init or '-'} {'/'.join(','.join(r) for r in rounds) or '-'} {fin}" for init, rounds, fin in cases])
    for (init, rounds, fin), got, i in zip(cases, impl, range(len(cases))):
        ctx.cov["evaluations"] += 1
        ctx.count("src-reset:" + got.split("|")[0])
        if model is not None and model[i] != got:
            ctx.corr_diff("generated Gateway.reset differs from the real coroutine", {"init": init, "rounds": rounds, "end": fin}, got[:300], model[i][:300])
    return len(cases)
