"""Shared machinery of the bellows verification checks.

One run of `./check Cxx --tier T`:
  1. translator  (harness/gen_lean.py)  -> lean/BV/Gen/*.lean from the repository under test
  2. lake build  BV.Props.Cxx + the driver, axiom audit of every property theorem
  3. correspondence (model vs implementation) + oracle (property predicate on the
     implementation's observed behaviour), per-property module harness/props/cxx.py
  4. verdict, evidence/Cxx.json
Exit codes: 0 held, 1 violation (with VIOLATION line), 2 harness trouble.
"""
from __future__ import annotations

import fcntl
import json
import os
import random
import re
import subprocess
import sys
import time
import traceback

VERIF = os.path.dirname(os.path.dirname(os.path.abspath(__file__)))
LEAN = os.path.join(VERIF, "lean")
REPO = os.environ.get("BELLOWS_REPO", "/repo")
PY = "/venv/bin/python"
ALLOWED_AXIOMS = {"propext", "Classical.choice", "Quot.sound"}
FORBIDDEN = re.compile(
    r"\b(sorry|admit|native_decide|bv_decide|implemented_by|unsafe)\b|^\s*axiom\s|maxHeartbeats\s+0\b",
    re.M,
)

TRUSTED_BASE = [
    "Lean 4.33.0 kernel; axioms audited per theorem, allowed: propext, Classical.choice, Quot.sound",
    "translator harness/gen_lean.py (reflection over the imported bellows modules -> lean/BV/Gen) and harness/pytrans.py "
    "(syntax trees of selected functions -> lean/BV/Gen/Src*.lean) with its model of the Python run time lean/BV/Py/*.lean",
    "correspondence harness (harness/props/*.py, harness/vloop.py, harness/shim.py) and the line-protocol driver lean/Main.lean",
    "hand-written specs in lean/BV/Spec (written from knowledge of UG101/UG100)",
    "modelled, not verified: CPython asyncio and binascii.crc_hqx, zigpy types/semaphore/base classes, voluptuous",
]


def log(*a):
    print(*a, file=sys.stderr, flush=True)


class Harness(Exception):
    """Harness trouble (exit 2)."""


def strip_comments(src: str) -> str:
    # remove /- ... -/ (nested not handled beyond one level) and -- comments
    out = []
    i = 0
    depth = 0
    n = len(src)
    while i < n:
        if src.startswith("/-", i):
            depth += 1
            i += 2
            continue
        if depth and src.startswith("-/", i):
            depth -= 1
            i += 2
            continue
        if depth:
            if src[i] == "\n":
                out.append("\n")
            i += 1
            continue
        if src.startswith("--", i):
            while i < n and src[i] != "\n":
                i += 1
            continue
        out.append(src[i])
        i += 1
    return "".join(out)


class Ctx:
    def __init__(self, pid: str, tier: str, seed: int):
        self.pid = pid
        self.tier = tier
        self.seed = seed
        self.rng = random.Random(f"{pid}:{seed}")
        self.t0 = time.time()
        self.repo = REPO
        self.violations = []  # dicts: what, key, replay(obj), no_input
        self.known_hits = []
        self.breaks = []  # broken obligations / correspondence differences
        self.cov = {
            "evaluations": 0,
            "distinct_nontrivial": 0,
            "rule": "",
            "samples": [],
            "distribution": {},
        }
        self.obligations = []  # (theorem, status, axioms)
        self.build_cmd = ""
        self.driver_ok = False
        self.props_ok = False
        self.gen_report = {}
        self.notes = []
        self.exhaustive = None
        self._known = None
        self.tripwire_changed = False

    # ------------------------------------------------------------------ sizes
    def n(self, quick: int, thorough: int) -> int:
        if self.tier == "thorough" or self.tripwire_changed and False:
            return thorough
        return quick

    # ------------------------------------------------------------------ gen + build
    def regen(self):
        env = dict(os.environ)
        env["PYTHONPATH"] = self.repo
        env["PYTHONWARNINGS"] = "ignore"
        p = subprocess.run(
            [PY, os.path.join(VERIF, "harness", "gen_lean.py"), os.path.join(LEAN, "BV", "Gen")],
            env=env,
            capture_output=True,
            text=True,
        )
        if p.returncode != 0:
            self.breaks.append(
                {
                    "kind": "translator",
                    "what": "translator failed on the repository under test",
                    "detail": (p.stdout + p.stderr)[-2000:],
                }
            )
            return False
        try:
            self.gen_report = json.loads(p.stdout.strip().splitlines()[-1])
        except Exception:
            self.gen_report = {}
        if self.gen_report.get("src_failed"):
            self.notes.append({"source_translation_failed": self.gen_report["src_failed"]})
        if self.gen_report.get("notes"):
            self.notes.append({"translator_notes": self.gen_report["notes"]})
        return True

    def _lake(self, targets):
        cmd = ["lake", "build"] + targets
        p = subprocess.run(cmd, cwd=LEAN, capture_output=True, text=True)
        return p.returncode == 0, p.stdout + p.stderr

    def theorems(self):
        path = os.path.join(LEAN, "BV", "Props", f"{self.pid}.lean")
        src = open(path, encoding="utf-8").read()
        code = strip_comments(src)
        names = []
        for m in re.finditer(r"^theorem\s+(c\d+_[A-Za-z0-9_']+)", code, re.M):
            line = code.count("\n", 0, m.start()) + 1
            names.append((m.group(1), line))
        return names, src

    def build(self):
        lockf = open(os.path.join(LEAN, ".build.lock"), "w")
        fcntl.flock(lockf, fcntl.LOCK_EX)
        try:
            self.regen_ok = self.regen()
            t = time.time()
            ok_d, out_d = self._lake(["bvdriver"])
            self.driver_ok = ok_d
            if not ok_d:
                self.breaks.append(
                    {"kind": "model-build", "what": "driver/model no longer builds", "detail": out_d[-3000:]}
                )
            ok_p, out_p = self._lake([f"BV.Props.{self.pid}"])
            self.props_ok = ok_p
            self.build_cmd = f"cd lean && lake build bvdriver BV.Props.{self.pid} && lake env lean <axiom audit of every property theorem>"
            self.build_s = time.time() - t
            names, src = self.theorems()
            code_nc = strip_comments(src)
            failed = set()
            if not ok_p:
                # map error lines to the enclosing theorem
                errs = re.findall(rf"BV/Props/{self.pid}\.lean:(\d+):\d+", out_p)
                other = re.findall(r"error: (BV/(?!Props)[A-Za-z0-9_/]+\.lean):(\d+)", out_p)
                decls = [(m.group(2), code_nc.count("\n", 0, m.start()) + 1, m.start())
                         for m in re.finditer(r"^(?:private\s+|protected\s+)?(theorem|lemma|def|instance|example|abbrev)\s+([A-Za-z0-9_'.]+)?", code_nc, re.M)]
                decls = [(m_name if m_name else f"<{kind}>", ln_) for (m_name, ln_, _), kind in
                         zip([(re.match(r"^(?:private\s+|protected\s+)?(?:theorem|lemma|def|instance|example|abbrev)\s+([A-Za-z0-9_'.]+)?", code_nc[st:]).group(1), l_, st) for (_, l_, st) in decls], [d[0] for d in decls])]
                broken_helpers = set()
                for e in errs:
                    ln = int(e)
                    cur = None
                    for nm, l in decls:
                        if l <= ln:
                            cur = nm
                    if cur:
                        broken_helpers.add(cur)
                propnames = {nm for nm, _ in names}
                failed |= broken_helpers & propnames
                helpers = broken_helpers - propnames
                if helpers:
                    # property theorems whose text mentions a broken helper
                    spans = sorted(names, key=lambda x: x[1])
                    lines_nc = code_nc.split("\n")
                    for i, (nm, l) in enumerate(spans):
                        end = len(lines_nc)
                        for nm2, l2 in decls:
                            if l2 > l:
                                end = l2 - 1
                                break
                        text = "\n".join(lines_nc[l - 1:end])
                        if any(re.search(r"\b" + re.escape(h) + r"\b", text) for h in helpers):
                            failed.add(nm)
                if not failed:
                    failed = {nm for nm, _ in names}
                self.breaks.append(
                    {
                        "kind": "obligation",
                        "what": "property theorems no longer check: " + ", ".join(sorted(failed)),
                        "theorems": sorted(failed),
                        "detail": out_p[-3000:],
                        "upstream_errors": other[:5],
                    }
                )
            # forbidden tokens
            bad = []
            for root, _, files in os.walk(os.path.join(LEAN, "BV")):
                for f in files:
                    if f.endswith(".lean"):
                        code = strip_comments(open(os.path.join(root, f), encoding="utf-8").read())
                        code = re.sub(r'"(?:[^"\\]|\\.)*"', '""', code)
                        for m in FORBIDDEN.finditer(code):
                            bad.append(f"{os.path.relpath(os.path.join(root, f), LEAN)}: {m.group(0).strip()}")
            if bad:
                self.breaks.append({"kind": "forbidden-token", "what": "forbidden token in Lean sources", "detail": bad[:10]})
            # axiom audit
            audit = {}
            if ok_p and names:
                audit = self.audit([nm for nm, _ in names])
            for nm, _ in names:
                if nm in failed or not ok_p and not failed:
                    self.obligations.append({"theorem": nm, "status": "failed", "axioms": None})
                elif not ok_p:
                    self.obligations.append({"theorem": nm, "status": "not-checked", "axioms": None})
                else:
                    ax = audit.get(nm)
                    if ax is None:
                        st = "audit-missing"
                    elif set(ax) <= ALLOWED_AXIOMS:
                        st = "discharged"
                    else:
                        st = "bad-axioms"
                    self.obligations.append({"theorem": nm, "status": st, "axioms": ax})
                    if st != "discharged":
                        self.breaks.append(
                            {"kind": "axiom-audit", "what": f"{nm}: axiom audit {st} {ax}", "theorems": [nm]}
                        )
        finally:
            fcntl.flock(lockf, fcntl.LOCK_UN)
            lockf.close()

    def audit(self, names):
        ns = f"BV.Props.{self.pid}"
        body = f"import BV.Props.{self.pid}\n" + "".join(f"#print axioms {ns}.{n}\n" for n in names)
        path = os.path.join(LEAN, ".lake", f"audit_{self.pid}_{os.getpid()}.lean")
        with open(path, "w") as f:
            f.write(body)
        try:
            p = subprocess.run(["lake", "env", "lean", path], cwd=LEAN, capture_output=True, text=True)
        finally:
            os.unlink(path)
        out = p.stdout + p.stderr
        res = {}
        # "'X' depends on axioms: [a, b]" or "'X' does not depend on any axioms"
        for m in re.finditer(r"'([^']+)' depends on axioms:\s*\[([^\]]*)\]", out, re.S):
            res[m.group(1).split(".")[-1]] = [a.strip() for a in m.group(2).replace("\n", " ").split(",") if a.strip()]
        for m in re.finditer(r"'([^']+)' does not depend on any axioms", out):
            res[m.group(1).split(".")[-1]] = []
        return res

    def leanchecker(self):
        """thorough tier: independent re-check of the property module."""
        t = time.time()
        p = subprocess.run(
            ["lake", "env", "leanchecker", f"BV.Props.{self.pid}"], cwd=LEAN, capture_output=True, text=True
        )
        ok = p.returncode == 0
        self.notes.append({"leanchecker": "ok" if ok else (p.stdout + p.stderr)[-500:], "s": round(time.time() - t, 1)})
        if not ok:
            self.breaks.append({"kind": "leanchecker", "what": "leanchecker rejected the property module", "detail": (p.stdout + p.stderr)[-1500:]})

    # ------------------------------------------------------------------ driver
    def driver(self, lines):
        """Run the model driver on a batch of lines; returns list of output lines
        (or None when the driver is not available)."""
        if not self.driver_ok:
            return None
        exe = os.path.join(LEAN, ".lake", "build", "bin", "bvdriver")
        data = "".join(l + "\n" for l in lines)
        p = subprocess.run([exe], input=data, capture_output=True, text=True)
        if p.returncode != 0:
            raise Harness(f"driver crashed: {p.stderr[-500:]}")
        out = p.stdout.split("\n")
        if out and out[-1] == "":
            out.pop()
        if len(out) != len(lines):
            raise Harness(f"driver returned {len(out)} lines for {len(lines)} inputs")
        return out

    # ------------------------------------------------------------------ reporting
    def count(self, key, k=1):
        d = self.cov["distribution"]
        d[key] = d.get(key, 0) + k

    def sample(self, obj, cap=4):
        if len(self.cov["samples"]) < cap:
            self.cov["samples"].append(obj)

    def known(self):
        if self._known is None:
            path = os.path.join(VERIF, "known_findings.json")
            if os.path.exists(path):
                self._known = [e for e in json.load(open(path)) if e.get("property") == self.pid]
            else:
                self._known = []
        return self._known

    def violation(self, what: str, key: dict, replay: dict):
        """An oracle failure on the implementation: concrete failing input."""
        for e in self.known():
            if e.get("kind") == "known" and all(key.get(k) == v for k, v in e.get("match", {}).items()):
                if e["what"] not in [k["what"] for k in self.known_hits]:
                    self.known_hits.append({"what": e["what"], "key": key})
                return False
        # keep a few, smallest replay first
        self.violations.append({"what": what, "key": key, "replay": replay})
        return True

    def corr_diff(self, what: str, case, impl, model):
        if len([b for b in self.breaks if b["kind"] == "correspondence"]) < 5:
            self.breaks.append(
                {"kind": "correspondence", "what": what, "case": case, "impl": impl, "model": model}
            )

    def finish(self, level="proof"):
        wall = time.time() - self.t0
        os.makedirs(os.path.join(VERIF, "evidence"), exist_ok=True)
        os.makedirs(os.path.join(VERIF, "replays"), exist_ok=True)
        rc = 0
        out_lines = []
        for k in self.known_hits:
            out_lines.append(f"KNOWN-FINDING: property={self.pid} {k['what']}")
        replay_path = os.path.join("replays", f"{self.pid}_{self.tier}_{self.seed}.json")
        if self.violations:
            v = min(self.violations, key=lambda v: len(json.dumps(v["replay"], default=str)))
            with open(os.path.join(VERIF, replay_path), "w") as f:
                json.dump(
                    {
                        "property": self.pid,
                        "what": v["what"],
                        "key": v["key"],
                        "replay": v["replay"],
                        "others": [x["what"] for x in self.violations[:10]],
                        "breaks": self.breaks,
                    },
                    f,
                    indent=1,
                    default=str,
                )
            out_lines.append(f"VIOLATION property={self.pid} replay={replay_path}")
            rc = 1
        elif self.breaks:
            with open(os.path.join(VERIF, replay_path), "w") as f:
                json.dump(
                    {
                        "property": self.pid,
                        "what": "proof obligation or model/implementation correspondence no longer checks; the search found no input on which the implementation violates the property",
                        "breaks": self.breaks,
                    },
                    f,
                    indent=1,
                    default=str,
                )
            out_lines.append(f"VIOLATION property={self.pid} replay={replay_path} no-failing-input-found")
            rc = 1
        n_ob = len(self.obligations)
        n_ok = len([o for o in self.obligations if o["status"] == "discharged"])
        cov = dict(self.cov)
        cov.update(
            {
                "obligations": n_ob,
                "discharged": n_ok,
                "checker_cmd": self.build_cmd,
                "trusted_base": TRUSTED_BASE,
                "theorems": self.obligations,
                "breaks": [{k: v for k, v in b.items() if k != "detail"} for b in self.breaks],
                "known_findings_hit": self.known_hits,
                "notes": self.notes,
            }
        )
        if self.exhaustive is not None:
            cov["exhaustive"] = self.exhaustive
        ev = {
            "property_id": self.pid,
            "tier": self.tier,
            "seed": self.seed,
            "level": level,
            "coverage": cov,
            "assumptions": TRUSTED_BASE,
            "wall_s": round(wall, 2),
            "violations": len(self.violations) + (1 if (self.breaks and not self.violations) else 0),
        }
        with open(os.path.join(VERIF, "evidence", f"{self.pid}.json"), "w") as f:
            json.dump(ev, f, indent=1, default=str)
        for l in out_lines:
            print(l, flush=True)
        print(
            f"{self.pid} {self.tier} seed={self.seed}: obligations {n_ok}/{n_ob}, evaluations {cov['evaluations']}, "
            f"nontrivial {cov['distinct_nontrivial']}, violations {len(self.violations)}, breaks {len(self.breaks)}, "
            f"known {len(self.known_hits)}, {wall:.1f}s",
            flush=True,
        )
        return rc
