"""Source-level translator: Python syntax trees of selected bellows functions -> Lean 4 definitions.

    PYTHONPATH=<repo> /venv/bin/python -c "import harness.pytrans as p; print(p.translate_module(p.ASH))"

It reads the *text* of the repository under test (ast.parse of inspect.getsource) for the
logic and uses reflection only for module-level constants (enum members, frozensets, class
attributes, dataclass field lists).  The result is a Lean file of plain definitions over the
run-time notions fixed in lean/BV/Py/Prelude.lean (and the per-class environment interface
in lean/BV/Py/*Env.lean).  The theorems in lean/BV/Proofs/Src*.lean then prove these generated
definitions equal to the hand-written models all property theorems are about, so the
properties are re-checked against what the code says *now*.

The fragment is deliberately small and explicit; anything outside it raises Unsupported,
which the caller reports as a failed translation (a broken tie, never a success):

  statements : assignment (names, tuples, self.attr, self.attr[k]), augmented assignment,
               if/elif/else, for (over bytes, range, list literals of classes, dict values),
               for-else, while (fuel), try/except/else (restricted), return, raise, break,
               continue, assert, pass, expression statements (calls), logging calls
               (dropped when their arguments cannot raise)
  expressions: int/bool/None/bytes literals, names, attributes, + - * % // & | ^ << >>,
               comparisons (incl. `in` on constant sets, `is None`), and/or/not, conditional
               expressions, subscripts and slices on bytes, a fixed table of builtins and
               methods (len, bytes, bytearray, range, zip, enumerate, next(generator),
               isinstance, int.to_bytes, bytearray.append/extend/clear/pop/partition,
               dict.get/pop/values, dataclass constructors / replace, binascii.crc_hqx)
"""
from __future__ import annotations

import ast
import dataclasses
import enum
import importlib
import inspect
import textwrap

KEYWORDS = {
    "prefix", "suffix", "from", "end", "at", "fun", "do", "then", "else", "if", "let", "in", "match", "with",
    "open", "local", "instance", "class", "structure", "where", "deriving", "namespace", "section", "variable",
    "universe", "theorem", "def", "example", "abbrev", "import", "export", "private", "protected", "mutual",
    "partial", "unsafe", "macro", "syntax", "notation", "infix", "infixl", "infixr", "postfix", "set_option",
    "attribute", "by", "have", "show", "return", "for", "unless", "try", "catch", "finally", "throw", "mut",
    "nomatch", "nofun", "Type", "Prop", "Sort", "true", "false", "calc", "using", "extends", "inductive",
    "opaque", "axiom", "noncomputable", "termination_by", "decreasing_by", "rec", "break", "continue", "data",
    "frame",
}


class Unsupported(Exception):
    pass


# --------------------------------------------------------------------------- types

NAT, INT, BOOL, BYTES, UNIT, STR, EXC = "nat", "int", "bool", "bytes", "unit", "str", "exc"


def opt(t):
    return ("opt", t)


def tup(*ts):
    return ("tuple", tuple(ts))


def lean_ty(t) -> str:
    if t == NAT:
        return "Nat"
    if t == INT:
        return "Int"
    if t == BOOL:
        return "Bool"
    if t == BYTES:
        return "List UInt8"
    if t == UNIT:
        return "Unit"
    if t == STR:
        return "String"
    if t == EXC:
        return "ExcVal"
    if isinstance(t, tuple):
        k = t[0]
        if k == "opt":
            return f"Option {paren(lean_ty(t[1]))}"
        if k == "tuple":
            return "(" + " × ".join(lean_ty(x) for x in t[1]) + ")" if t[1] else "Unit"
        if k == "list":
            return f"List {paren(lean_ty(t[1]))}"
        if k == "dict":
            return f"List (Nat × {lean_ty(t[2])})"
        if k in ("obj", "cls", "enum", "lean", "struct"):
            return t[1]
        if k == "set":
            return f"List {paren(lean_ty(t[1]))}"
        if k == "ref":
            return "Nat"
    raise Unsupported(f"type {t!r}")


def paren(s: str) -> str:
    s = s.strip()
    if " " in s and not (s.startswith("(") and s.endswith(")") and _balanced(s[1:-1])):
        return f"({s})"
    return s


def _balanced(s: str) -> bool:
    d = 0
    for ch in s:
        if ch == "(":
            d += 1
        elif ch == ")":
            d -= 1
            if d < 0:
                return False
    return d == 0


def ident(name: str) -> str:
    if name.startswith("_"):
        name = "u" + name
    if name in KEYWORDS:
        name = name + "_"
    return name


# --------------------------------------------------------------------------- module description


@dataclasses.dataclass
class FnSpec:
    qual: str  # "func" or "Class.method"
    params: dict | None = None  # name -> type (overrides annotations)
    ret: object = None  # return type override
    bind_cls: str | None = None  # classmethod specialised to this class
    lean_name: str | None = None
    fuel: str | None = None  # Lean term for the fuel of its while loop(s), may mention parameters
    allow_async: bool = False  # a coroutine whose awaits are all calls on the modelled environment (or on translated coroutines)


@dataclasses.dataclass
class StateSpec:
    pyclass: str
    lean: str  # Lean structure name (declared by hand in the Env file)
    fields: dict  # python attribute -> (lean field, type)
    # source text of a call's function (ast.unparse) -> handler(tr, node, args(list of (term,ty)), lines) -> (term, ty)
    calls: dict = dataclasses.field(default_factory=dict)
    # source text of an attribute expression -> (lean term template using {s}, type)
    attrs: dict = dataclasses.field(default_factory=dict)
    # assignment targets with special meaning: source text -> handler(tr, value(term,ty), lines)
    assigns: dict = dataclasses.field(default_factory=dict)


@dataclasses.dataclass
class ModSpec:
    module: str
    ns: str
    imports: list
    opens: list
    unions: dict  # union name -> list of dataclass names (in order)
    fns: list  # FnSpec, in dependency order
    state: StateSpec | None = None
    exc_ctor: dict = dataclasses.field(default_factory=dict)  # exception class -> handler(fn, node, env, lines) -> term of type ExcVal
    value_methods: dict = dataclasses.field(default_factory=dict)  # (type key, method) -> handler(fn, base, type, args, lines) -> (term, type)
    enums: list = dataclasses.field(default_factory=list)  # plain Enum classes emitted as Lean inductives
    postamble: str = ""
    state_decl: str = ""  # Lean text: the state structure and its environment operations (after enums and unions)
    preamble: str = ""
    # hook tried first on Call / Attribute / Subscript nodes: (fn, node, env, lines) -> (term, type) | None
    ext_expr: object = None
    # hook tried first on every statement: (fn, stmt, env, lines) -> True when it translated the statement itself
    stmt_hook: object = None
    # hook on `with` / `async with` statements: (fn, stmt, env, lines) -> None | ("rewrite", [stmts]) | ("wrap", [exit lines]) (the
    # enter lines are appended to `lines` by the hook)
    with_hook: object = None
    # record-like classes of the repository handled as Lean structures: name -> {field: type}; declared in state_decl
    structs: dict = dataclasses.field(default_factory=dict)
    # qualified function name -> locals whose in-place attribute assignment may be translated as a copy although the object is
    # shared; the reason must be given next to the entry in the module spec
    alias_ok: dict = dataclasses.field(default_factory=dict)


# --------------------------------------------------------------------------- translator


class Lines:
    def __init__(self):
        self.l = []

    def add(self, s, ind=0):
        self.l.append("  " * ind + s)

    def extend(self, other, ind=0):
        for s in other.l if isinstance(other, Lines) else other:
            self.l.append("  " * ind + s)


class Tr:
    def __init__(self, spec: ModSpec):
        self.spec = spec
        self.mod = importlib.import_module(spec.module)
        self.src = inspect.getsource(self.mod)
        self.tree = ast.parse(self.src)
        self.out = []  # top-level Lean declarations (text)
        self.sigs = {}  # qual -> (lean name, [(pname, type)], ret type, monad)
        self.tmp = 0
        self.union_of = {}
        for u, classes in spec.unions.items():
            for c in classes:
                self.union_of[c] = u
        self.report = {"translated": [], "failed": {}}

    # ------------------------------------------------------------------ reflection helpers
    def const_value(self, name):
        """module-level constant -> (lean term, type) or None"""
        if not hasattr(self.mod, name):
            return None
        v = getattr(self.mod, name)
        return self.value_term(v)

    def value_term(self, v):
        if isinstance(v, bool):
            return ("true" if v else "false", BOOL)
        if isinstance(v, int):  # includes IntEnum members
            if int(v) < 0:
                return (f"({int(v)} : Int)", INT)
            return (str(int(v)), NAT)
        if isinstance(v, (frozenset, set)) and all(isinstance(x, int) for x in v):
            return ("[" + ", ".join(str(int(x)) for x in sorted(v)) + "]", ("list", NAT))
        if isinstance(v, (bytes, bytearray)):
            return ("[" + ", ".join(str(x) for x in v) + "]", BYTES)
        if v is None:
            return ("none", opt(NAT))
        return None

    def named_const(self, n, cv):
        """a module-level bytes / frozenset constant becomes a named Lean definition (emitted once)"""
        name = f"C_{n}"
        self.consts = getattr(self, "consts", {})
        if name not in self.consts:
            ty = "List UInt8" if cv[1] == BYTES else "List Nat"
            self.consts[name] = f"/-- module constant `{n}` (value by reflection) -/\ndef {name} : {ty} := {cv[0]}"
        return name

    def fresh(self, base="t"):
        self.tmp += 1
        return f"{base}{self.tmp}"

    # ------------------------------------------------------------------ unions (dataclasses)
    def emit_enums(self):
        for name in self.spec.enums:
            cls = getattr(self.mod, name)
            lines = [f"/-- the enum `{name}` -/", f"inductive {name}"] + [f"  | {m.name}" for m in cls] + ["deriving Repr, DecidableEq"]
            self.out.append("\n".join(lines))

    def emit_unions(self):
        for u, classes in self.spec.unions.items():
            ctors = []
            for c in classes:
                cls = getattr(self.mod, c)
                fs = [f.name for f in dataclasses.fields(cls)]
                ctors.append((c, fs))
            self.union_fields = getattr(self, "union_fields", {})
            self.union_fields[u] = ctors
            lines = [f"/-- the dataclasses {', '.join(classes)} (every field an int: Python's bool is an int) -/", f"inductive {u}"]
            for c, fs in ctors:
                args = " ".join(f"({ident(f)} : Nat)" if f != "ezsp_frame" else f"({ident(f)} : List UInt8)" for f in fs)
                lines.append(f"  | {c} {args}".rstrip())
            lines.append("deriving Repr, DecidableEq")
            lines.append("")
            lines.append(f"/-- the classes themselves, as values (`for frame in [DataFrame, …]`, `cls`) -/")
            lines.append(f"inductive {u}Cls")
            for c, _ in ctors:
                lines.append(f"  | {c}")
            lines.append("deriving Repr, DecidableEq")
            lines.append("")
            lines.append(f"def {u}.cls : {u} → {u}Cls")
            for c, fs in ctors:
                lines.append(f"  | .{c} {' '.join('_' for _ in fs)} => .{c}".replace("  =>", " =>"))
            lines.append("")
            # class attributes that are ints (MASK, MASK_VALUE)
            attrs = {}
            for c, _ in ctors:
                cls = getattr(self.mod, c)
                for k, v in vars(cls).items():
                    if isinstance(v, int) and not k.startswith("__"):
                        attrs.setdefault(k, {})[c] = int(v)
                for base in cls.__mro__[1:]:
                    for k, v in vars(base).items():
                        if isinstance(v, int) and not isinstance(v, bool) and not k.startswith("__") and k not in vars(cls):
                            attrs.setdefault(k, {})[c] = int(v)
            self.cls_attrs = getattr(self, "cls_attrs", {})
            self.cls_attrs[u] = attrs
            for k, m in attrs.items():
                if set(m) != {c for c, _ in ctors}:
                    continue
                lines.append(f"def {u}Cls.{k} : {u}Cls → Nat")
                for c, _ in ctors:
                    lines.append(f"  | .{c} => {m[c]}")
                lines.append("")
            # field accessors over the union (AttributeError when the class has no such field)
            allf = []
            for _, fs in ctors:
                for f in fs:
                    if f not in allf:
                        allf.append(f)
            for f in allf:
                ty = "List UInt8" if f == "ezsp_frame" else "Nat"
                lines.append(f"def {u}.get_{f} : {u} → Except PyErr {paren(ty)}")
                for c, fs in ctors:
                    if f in fs:
                        pat = " ".join(("x" if g == f else "_") for g in fs)
                        lines.append(f"  | .{c} {pat} => .ok x")
                if any(f not in fs for _, fs in ctors):
                    lines.append('  | _ => .error (.raised "AttributeError")')
                lines.append("")
            self.out.append("\n".join(lines))

    def field_ty(self, f):
        return BYTES if f == "ezsp_frame" else NAT

    # ------------------------------------------------------------------ functions
    def find_def(self, qual):
        parts = qual.split(".")
        body = self.tree.body
        node = None
        for p in parts:
            node = None
            for n in body:
                if isinstance(n, (ast.FunctionDef, ast.AsyncFunctionDef, ast.ClassDef)) and n.name == p:
                    node = n
                    break
            if node is None:
                return None
            body = node.body
        return node

    def resolve_alias(self, qual):
        """`from_bytes = classmethod(RStackFrame.from_bytes.__func__)` / `to_bytes = RStackFrame.to_bytes`"""
        parts = qual.split(".")
        if len(parts) != 2:
            return None
        cls = getattr(self.mod, parts[0])
        attr = inspect.getattr_static(cls, parts[1], None)
        fn = attr.__func__ if isinstance(attr, (classmethod, staticmethod)) else attr
        if fn is None or not hasattr(fn, "__qualname__"):
            return None
        return fn.__qualname__

    def ann_type(self, ann, owner=None):
        if ann is None:
            return None
        s = ast.unparse(ann)
        s = s.strip("'\"")
        table = {
            "int": NAT, "bytes": BYTES, "bool": BOOL, "None": UNIT, "t.uint8_t": NAT, "t.NcpResetCode": NAT,
            "float": None, "bytearray": BYTES,
        }
        if s in table:
            return table[s]
        if s in self.union_of:
            return ("obj", self.union_of[s])
        if s.startswith("tuple[") and s.endswith("]"):
            inner = [x.strip() for x in s[6:-1].split(",")]
            ts = [table.get(x) or (("obj", self.union_of[x]) if x in self.union_of else None) for x in inner]
            if all(ts):
                return tup(*ts)
        parts = [x.strip() for x in s.split("|")]
        if len(parts) > 1 and all(p in self.union_of for p in parts):
            return ("obj", self.union_of[parts[0]])
        return None

    def emit_dispatch(self, fs: FnSpec):
        """`frame.from_bytes(data)` for a class value / `frame.to_bytes()` for an instance: dispatch over the union"""
        u, m = fs.qual.split(":")[1:]
        ctors = self.union_fields[u]
        lines = []
        if m == "from_bytes":
            lines.append(f"/-- `cls.from_bytes(data)` for a class held in a variable -/")
            lines.append(f"def {u}Cls.from_bytes : {u}Cls → List UInt8 → Except PyErr {u}")
            for c, _ in ctors:
                key = self.find_sig_static(c, m)
                lines.append(f"  | .{c}, d => {self.sigs[key][0]} d")
        elif m == "to_bytes":
            lines.append(f"/-- `frame.to_bytes()` for an instance of any of the classes (keyword-only parameters at their defaults) -/")
            lines.append(f"def {u}.to_bytes : {u} → Except PyErr (List UInt8)")
            for c, fs_ in ctors:
                key = self.find_sig_static(c, m)
                lname, params, ret, monad, kind = self.sigs[key]
                extra = ""
                node = self.find_def(key[0]) or self.find_def(self.resolve_alias(key[0]) or "")
                for (pn, pt), d in zip(params, [x for x in node.args.kw_defaults] if node.args.kwonlyargs else []):
                    if isinstance(d, ast.Constant) and isinstance(d.value, bool):
                        extra += " true" if d.value else " false"
                    else:
                        raise Unsupported(f"{fs.qual}: parameter {pn} of {c}.to_bytes")
                names = " ".join(ident(f) for f in fs_)
                lines.append(f"  | .{c} {names} => {lname} {names}{extra}".replace("  =>", " =>"))
        else:
            raise Unsupported(fs.qual)
        self.out.append("\n".join(lines))

    def find_sig_static(self, owner, m):
        for (q, b) in self.sigs:
            if b == owner and q.endswith("." + m):
                return (q, b)
        raise Unsupported(f"no translation of {owner}.{m}")

    def translate_all(self):
        self.emit_enums()
        self.emit_unions()
        if self.spec.state_decl:
            self.out.append(self.spec.state_decl)
        for fs in self.spec.fns:
            if fs.qual.startswith("dispatch:"):
                self.emit_dispatch(fs)
                continue
            try:
                self.translate_fn(fs)
                self.report["translated"].append(fs.qual + (f"[{fs.bind_cls}]" if fs.bind_cls else ""))
            except Unsupported as e:
                self.report["failed"][fs.qual] = str(e)
                raise
        return self.render()

    def render(self):
        sp = self.spec
        head = "-- GENERATED by harness/pytrans.py from the source text of the repository under test. Do not edit.\n"
        head += "".join(f"import {i}\n" for i in sp.imports)
        head += f"namespace {sp.ns}\n"
        head += "".join(f"open {o}\n" for o in sp.opens)
        head += "\n"
        consts = "\n\n".join(getattr(self, "consts", {}).values())
        return head + sp.preamble + consts + ("\n\n" if consts else "") + "\n\n".join(self.out) + f"\n\nend {sp.ns}\n"

    def lean_fn_name(self, fs: FnSpec):
        if fs.lean_name:
            return fs.lean_name
        parts = fs.qual.split(".")
        if fs.bind_cls:
            parts = [fs.bind_cls, parts[-1]]
        return ".".join(ident(p) for p in parts)

    def translate_fn(self, fs: FnSpec):
        qual = fs.qual
        node = self.find_def(qual)
        if node is None:
            real = self.resolve_alias(qual)
            node = self.find_def(real) if real else None
            if node is None:
                raise Unsupported(f"{qual}: definition not found")
        if isinstance(node, ast.AsyncFunctionDef) and not fs.allow_async:
            raise Unsupported(f"{qual}: coroutine")
        decos = [ast.unparse(d) for d in node.decorator_list]
        parts = qual.split(".")
        owner = parts[0] if len(parts) == 2 else None
        if fs.bind_cls:
            owner = fs.bind_cls
        kind = "function"
        args = [a.arg for a in node.args.args]
        kwonly = [a.arg for a in node.args.kwonlyargs]
        if owner:
            if "classmethod" in decos or (fs.bind_cls and args and args[0] == "cls"):
                kind = "classmethod"
            elif "staticmethod" in decos:
                kind = "staticmethod"
            else:
                kind = "method"
        f = Fn(self, fs, node, kind, owner)
        f.run()

    # ------------------------------------------------------------------ entry


class Fn:
    """translation of one function body"""

    def __init__(self, tr: Tr, fs: FnSpec, node, kind, owner):
        self.tr = tr
        self.fs = fs
        self.node = node
        self.kind = kind
        self.owner = owner
        self.name = tr.lean_fn_name(fs)
        self.loops = []  # emitted loop body defs (text)
        self.nloops = 0
        st = tr.spec.state
        self.is_state_method = kind == "method" and st is not None and owner == st.pyclass
        self.self_frame = kind == "method" and owner in tr.union_of  # method of a dataclass: self is a known ctor
        self.monad = "M" if self.is_state_method else "E"
        self.sigma = st.lean if self.is_state_method else None

    # ---------- small emit helpers
    def pure(self, term):
        return f"pure {paren(term)}"

    def throw_cls(self, cls):
        if self.monad == "M":
            return f'PyM.throw (.raised "{cls}")'
        return f'throw (PyErr.raised "{cls}")'

    def unsupported_term(self, what):
        raise Unsupported(f"{self.fs.qual}: {what}")

    def mty(self, t):
        if self.monad == "M":
            return f"PyM {self.sigma} {paren(t)}"
        return f"Except PyErr {paren(t)}"

    # ---------- run
    def run(self):
        node, fs, tr = self.node, self.fs, self.tr
        a = node.args
        if a.posonlyargs:
            raise Unsupported(f"{fs.qual}: positional-only parameters")
        for x in (a.vararg, a.kwarg):
            # `*args` / `**kwargs` are ordinary parameters of the type the translation spec gives them (a value list / a list of
            # named values); they can only be handed on whole
            if x is not None and not (fs.params and x.arg in fs.params):
                raise Unsupported(f"{fs.qual}: *args/**kwargs")
        params = []
        env = {}
        names = [x for x in a.args] + ([a.vararg] if a.vararg else []) + [x for x in a.kwonlyargs] + ([a.kwarg] if a.kwarg else [])
        defaults = {}
        nd = len(a.defaults)
        for i, d in enumerate(a.defaults):
            defaults[a.args[len(a.args) - nd + i].arg] = d
        for x, d in zip(a.kwonlyargs, a.kw_defaults):
            if d is not None:
                defaults[x.arg] = d
        self.defaults = defaults
        skip_first = self.kind in ("method", "classmethod")
        for i, x in enumerate(names):
            if i == 0 and skip_first:
                continue
            t = None
            if fs.params and x.arg in fs.params:
                t = fs.params[x.arg]
            else:
                t = tr.ann_type(x.annotation)
            if t is None:
                raise Unsupported(f"{fs.qual}: parameter {x.arg} has no translatable type")
            params.append((x.arg, t))
            env[x.arg] = t
        ret = fs.ret if fs.ret is not None else tr.ann_type(node.returns)
        if ret is None:
            raise Unsupported(f"{fs.qual}: return type unknown")
        self.ret = ret
        self.params = params
        if self.self_frame:
            # `self` is the dataclass instance: bind its fields as parameters self_<f>
            ctor = [c for c in tr.union_fields[tr.union_of[self.owner]] if c[0] == self.owner][0]
            self.self_fields = ctor[1]
        tr.sigs[(fs.qual, fs.bind_cls)] = (self.name, params, ret, self.monad, self.kind)
        body = list(node.body)
        lines, ft = self.block(body, dict(env), {"kind": "fn"}, [])
        plist = ""
        if self.self_frame:
            u = tr.union_of[self.owner]
            plist += " " + " ".join(f"(self_{ident(f)} : {lean_ty(tr.field_ty(f))})" for f in self.self_fields)
        plist += "".join(f" ({ident(n)} : {lean_ty(t)})" for n, t in params)
        src_line = node.lineno
        doc = f"/-- `{fs.qual}`" + (f" with `cls` = {fs.bind_cls}" if fs.bind_cls and self.kind == "classmethod" else "") + f" ({tr.spec.module.replace('.', '/')}.py:{src_line}) -/"
        text = []
        text.extend(self.loops)
        text.append(doc)
        text.append(f"def {self.name}{plist} : {self.mty(lean_ty(ret))} := do")
        for l in lines:
            text.append("  " + l)
        tr.out.append("\n".join(text))

    # ---------- statement blocks
    def none_value(self):
        if self.ret == UNIT:
            return "()"
        if isinstance(self.ret, tuple) and self.ret[0] == "opt":
            return "none"
        raise Unsupported(f"{self.fs.qual}: control reaches the end of a function whose return type is not None/Optional")

    def tail_fall(self, tail, env):
        k = tail["kind"]
        if k == "fn":
            return [self.pure(self.none_value())]
        if k == "loop":
            return [f"pure (Ctl.next {self.tuple_term(tail['carried'])})"]
        if k == "join":
            return [f"pure {self.tuple_term(tail['vars'])}"]
        if k == "flow":
            return [f"pure (Sum.inr {self.tuple_term(tail['vars'])})"]
        if k == "tryret":
            return [f"pure (Sum.inr {self.tuple_term(tail['vars'])})"]
        if k == "retonly":
            raise Unsupported(f"{self.fs.qual}: internal: a block taken as never falling through falls through")
        raise AssertionError(k)

    def tuple_term(self, names):
        if not names:
            return "()"
        if len(names) == 1:
            return ident(names[0])
        return "(" + ", ".join(ident(n) for n in names) + ")"

    def tuple_pat(self, names):
        return self.tuple_term(names)

    def tuple_ty(self, names, env):
        if not names:
            return "Unit"
        return " × ".join(paren(lean_ty(env[n])) for n in names)

    @staticmethod
    def has_jump(stmts, in_loop=False):
        """does the statement list contain return (anywhere) or break/continue belonging to the enclosing loop?"""
        for s in stmts:
            if isinstance(s, ast.Return):
                return True
            if isinstance(s, (ast.Break, ast.Continue)) and not in_loop:
                return True
            if isinstance(s, ast.If):
                if Fn.has_jump(s.body, in_loop) or Fn.has_jump(s.orelse, in_loop):
                    return True
            elif isinstance(s, (ast.For, ast.While)):
                if Fn.has_jump(s.body, True) or Fn.has_jump(s.orelse, in_loop):
                    return True
            elif isinstance(s, ast.Try):
                for blk in [s.body, s.orelse, s.finalbody] + [h.body for h in s.handlers]:
                    if Fn.has_jump(blk, in_loop):
                        return True
            elif isinstance(s, (ast.With, ast.AsyncWith)):
                if Fn.has_jump(s.body, in_loop):
                    return True
        return False

    @staticmethod
    def has_return(stmts):
        for s in ast.walk(ast.Module(body=list(stmts), type_ignores=[])):
            if isinstance(s, ast.Return):
                return True
        return False

    @staticmethod
    def terminates(stmts):
        """conservative: the block never falls through"""
        if not stmts:
            return False
        s = stmts[-1]
        if isinstance(s, (ast.Return, ast.Raise, ast.Break, ast.Continue)):
            return True
        if isinstance(s, ast.If):
            return bool(s.orelse) and Fn.terminates(s.body) and Fn.terminates(s.orelse)
        if isinstance(s, ast.Try) and s.finalbody and not s.handlers and not s.orelse:
            return Fn.terminates(s.body)
        if isinstance(s, ast.AsyncWith):
            return Fn.terminates(s.body)
        return False

    @staticmethod
    def assigned(stmts):
        out = []

        def tgt(t):
            if isinstance(t, ast.Name):
                if t.id not in out:
                    out.append(t.id)
            elif isinstance(t, (ast.Tuple, ast.List)):
                for e in t.elts:
                    tgt(e)
            elif isinstance(t, ast.Attribute) and isinstance(t.value, ast.Name) and t.value.id not in ("self", "cls"):
                # `local.field = v` on a record-like local is a rebinding of the local in the translation
                if t.value.id not in out:
                    out.append(t.value.id)

        for s in stmts:
            for n in ast.walk(s):
                if isinstance(n, ast.Assign):
                    for t in n.targets:
                        tgt(t)
                elif isinstance(n, (ast.AugAssign, ast.AnnAssign)):
                    tgt(n.target)
                elif isinstance(n, ast.For):
                    tgt(n.target)
                elif isinstance(n, ast.Expr) and isinstance(n.value, ast.Call) and isinstance(n.value.func, ast.Attribute) \
                        and isinstance(n.value.func.value, ast.Name) and n.value.func.attr in ("append", "extend", "clear", "pop"):
                    # in-place mutation of a local bytearray is a rebinding of the name in the translation
                    if n.value.func.value.id not in out:
                        out.append(n.value.func.value.id)
        return out

    @staticmethod
    def loaded(stmts):
        out = set()
        for s in stmts:
            for n in ast.walk(s):
                if isinstance(n, ast.Name):
                    out.add(n.id)
        return out

    def is_logging(self, s):
        return (isinstance(s, ast.Expr) and isinstance(s.value, ast.Call) and isinstance(s.value.func, ast.Attribute)
                and isinstance(s.value.func.value, ast.Name) and s.value.func.value.id in ("_LOGGER", "LOGGER"))

    def check_log_args(self, call, env=None, L=None):
        """a dropped logging call must not be able to raise or have effects: names, attributes, constants,
        f-strings of those, `.hex()` and `.name` only; an argument that is a conversion the module spec knows
        (it can raise) is evaluated for that effect, in place, before the call is dropped"""
        for a in list(call.args) + [k.value for k in call.keywords]:
            if isinstance(a, (ast.Call, ast.Subscript)) and self.tr.spec.ext_expr is not None and env is not None:
                r = self.tr.spec.ext_expr(self, a, env, L)
                if r is not None:
                    continue
            for n in ast.walk(a):
                if isinstance(n, ast.Call):
                    if isinstance(n.func, ast.Attribute) and n.func.attr in ("hex",) and not n.args:
                        continue
                    if isinstance(n.func, ast.Name) and n.func.id == "repr" and len(n.args) == 1 and isinstance(n.args[0], ast.Name):
                        continue
                    raise Unsupported(f"{self.fs.qual}: logging call with a call in its arguments: {ast.unparse(call)[:80]}")
                if isinstance(n, (ast.Subscript, ast.BinOp, ast.Await, ast.Yield, ast.NamedExpr)):
                    raise Unsupported(f"{self.fs.qual}: logging call with a computed argument: {ast.unparse(call)[:80]}")

    def block(self, stmts, env, tail, rest_after):
        """translate `stmts` (then falling into `tail`); returns (lines, env_after)"""
        L = []
        i = 0
        while i < len(stmts):
            s = stmts[i]
            rest = stmts[i + 1:]
            if isinstance(s, ast.Expr) and isinstance(s.value, ast.Constant) and isinstance(s.value.value, str):
                i += 1
                continue
            if isinstance(s, ast.Pass):
                i += 1
                continue
            if self.tr.spec.stmt_hook is not None and self.tr.spec.stmt_hook(self, s, env, L):
                i += 1
                continue
            if self.is_logging(s):
                self.check_log_args(s.value, env, L)
                i += 1
                continue
            if isinstance(s, ast.If) and self.is_log_guard(s):
                i += 1
                continue
            if isinstance(s, ast.Return):
                if tail["kind"] == "join":
                    raise Unsupported(f"{self.fs.qual}: internal: return inside a joined branch")
                if s.value is None:
                    term = self.none_value()
                else:
                    term, ty = self.ex(s.value, env, L)
                    term = self.coerce(term, ty, self.ret)
                if tail["kind"] == "loop":
                    L.append(f"pure (Ctl.ret {paren(term)})")
                elif tail["kind"] == "tryret":
                    L.append(f"pure (Sum.inl {paren(term)})")
                else:
                    L.append(self.pure(term))
                return L, False
            if isinstance(s, ast.Raise):
                L.append(self.raise_stmt(s, env, L))
                return L, False
            if isinstance(s, ast.Break):
                if tail["kind"] == "flow":
                    L.append(f"pure (Sum.inl (Ctl.brk {self.tuple_term(tail['carried'])}))")
                    return L, False
                if tail["kind"] != "loop":
                    raise Unsupported(f"{self.fs.qual}: break outside a translated loop")
                L.append(f"pure (Ctl.brk {self.tuple_term(tail['carried'])})")
                return L, False
            if isinstance(s, ast.Continue):
                if tail["kind"] == "flow":
                    L.append(f"pure (Sum.inl (Ctl.next {self.tuple_term(tail['carried'])}))")
                    return L, False
                if tail["kind"] != "loop":
                    raise Unsupported(f"{self.fs.qual}: continue outside a translated loop")
                L.append(f"pure (Ctl.next {self.tuple_term(tail['carried'])})")
                return L, False
            if isinstance(s, ast.Assert):
                s2 = ast.If(test=ast.UnaryOp(op=ast.Not(), operand=s.test),
                            body=[ast.Raise(exc=ast.Name(id="AssertionError", ctx=ast.Load()), cause=None)], orelse=[])
                ast.copy_location(s2, s)
                ast.fix_missing_locations(s2)
                stmts = stmts[:i] + [s2] + stmts[i + 1:]
                continue
            if isinstance(s, (ast.Assign, ast.AugAssign, ast.AnnAssign)):
                self.assign(s, env, L)
                i += 1
                continue
            if isinstance(s, ast.Expr):
                self.expr_stmt(s.value, env, L)
                i += 1
                continue
            if isinstance(s, ast.If):
                jumps = self.has_jump(s.body) or self.has_jump(s.orelse)
                t_then, t_else = self.terminates(s.body), self.terminates(s.orelse)
                c = self.cond(s.test, env, L)
                if not jumps and not (t_then or t_else):
                    # join on the variables assigned in either branch
                    av = [v for v in self.assigned(s.body + s.orelse)]
                    vars_ = []
                    for v in av:
                        both = v in self.assigned(s.body) and v in self.assigned(s.orelse)
                        if v in env or both:
                            vars_.append(v)
                        elif v in self.loaded(rest) or v in self.loaded(rest_after):
                            raise Unsupported(f"{self.fs.qual}: {v} may be unbound after the if at line {s.lineno}")
                    e1, e2 = dict(env), dict(env)
                    l1, _ = self.block(s.body, e1, {"kind": "join", "vars": vars_}, [])
                    l2, _ = self.block(s.orelse, e2, {"kind": "join", "vars": vars_}, [])
                    for v in vars_:
                        t1, t2 = e1.get(v), e2.get(v)
                        if t1 != t2:
                            raise Unsupported(f"{self.fs.qual}: {v} has different types in the branches of the if at line {s.lineno}")
                        env[v] = t1
                    pat = self.tuple_pat(vars_)
                    L.append(f"let {pat} ← (" if vars_ else "(")
                    L.append(f"  if {c} then (do")
                    L.extend("    " + x for x in l1)
                    L.append("  ) else (do")
                    L.extend("    " + x for x in l2)
                    L.append("  ))")
                    i += 1
                    continue
                if tail["kind"] in ("loop", "flow") and rest and not self.has_return(s.body) and not self.has_return(s.orelse) \
                        and not (t_then or t_else):
                    # break / continue inside the branches, and statements after the if: the branches answer either "leave the
                    # round like this" or "go on with these names", so that what follows the if is written once
                    av = [v for v in self.assigned(s.body + s.orelse)]
                    vars_ = []
                    for v in av:
                        both = v in self.assigned(s.body) and v in self.assigned(s.orelse)
                        if v in env or both:
                            vars_.append(v)
                        elif v in self.loaded(rest) or v in self.loaded(rest_after):
                            raise Unsupported(f"{self.fs.qual}: {v} may be unbound after the if at line {s.lineno}")
                    carried = tail["carried"]
                    e1, e2 = dict(env), dict(env)
                    ft = {"kind": "flow", "vars": vars_, "carried": carried}
                    l1, _ = self.block(s.body, e1, ft, [])
                    l2, _ = self.block(s.orelse, e2, ft, [])
                    for v in vars_:
                        if e1.get(v) != e2.get(v):
                            raise Unsupported(f"{self.fs.qual}: {v} has different types in the branches of the if at line {s.lineno}")
                        env[v] = e1.get(v)
                    fl = self.tr.fresh("fl")
                    L.append(f"let {fl} ← (")
                    L.append(f"  if {c} then (do")
                    L.extend("    " + x for x in l1)
                    L.append("  ) else (do")
                    L.extend("    " + x for x in l2)
                    L.append("  ))")
                    L.append(f"match {fl} with")
                    L.append("| .inl ctl_ =>")
                    L.append("  pure (Sum.inl ctl_)" if tail["kind"] == "flow" else "  pure ctl_")
                    L.append(f"| .inr {self.tuple_pat(vars_)} =>")
                    lr, _ = self.block(list(rest), env, tail, rest_after)
                    L.extend("  " + x for x in lr)
                    return L, False
                # jump mode: the rest of the block continues inside the branches that fall through
                e1, e2 = dict(env), dict(env)
                l1, ft1 = self.block(s.body + ([] if t_then else rest), e1, tail, rest_after)
                l2, ft2 = self.block(s.orelse + ([] if t_else else rest), e2, tail, rest_after)
                L.append(f"if {c} then do")
                L.extend("  " + x for x in l1)
                L.append("else do")
                L.extend("  " + x for x in l2)
                return L, False
            if isinstance(s, ast.For):
                self.for_stmt(s, env, L, tail, rest, rest_after)
                if self.has_return(s.body):
                    return L, False  # for_stmt consumed the rest
                i += 1
                continue
            if isinstance(s, ast.While):
                self.while_stmt(s, env, L, tail, rest, rest_after)
                if self.has_return(s.body):
                    return L, False
                i += 1
                continue
            if isinstance(s, ast.Try):
                done = self.try_stmt(s, env, L, tail, rest, rest_after)
                if done:
                    return L, False
                i += 1
                continue
            if isinstance(s, ast.With) and len(s.items) == 1 and s.items[0].optional_vars is None and isinstance(s.items[0].context_expr, ast.Call) \
                    and ast.unparse(s.items[0].context_expr.func) == "contextlib.suppress" and self.monad == "M":
                classes = [a.id for a in s.items[0].context_expr.args if isinstance(a, ast.Name)]
                if len(classes) != len(s.items[0].context_expr.args) or self.has_jump(s.body):
                    raise Unsupported(f"{self.fs.qual}: with contextlib.suppress(...) shape")
                if any(v in self.loaded(rest) or v in self.loaded(rest_after) for v in self.assigned(s.body) if v not in env):
                    raise Unsupported(f"{self.fs.qual}: name bound under contextlib.suppress and used later")
                lb, _ = self.block(s.body, dict(env), {"kind": "join", "vars": []}, [])
                L.append("PyM.tryCatch (do")
                L.extend("    " + x for x in lb)
                L.append("  ) [" + ", ".join(f'"{c}"' for c in classes) + "] (pure ())")
                i += 1
                continue
            if isinstance(s, (ast.With, ast.AsyncWith)) and getattr(self.tr.spec, "with_hook", None) is not None and self.monad == "M":
                if isinstance(s, ast.AsyncWith) and not self.fs.allow_async:
                    raise Unsupported(f"{self.fs.qual}: async with")
                r = self.tr.spec.with_hook(self, s, env, L)
                if r is not None and r[0] == "rewrite":
                    # the statement stands for these statements (the hook says which construct it recognised)
                    stmts = list(stmts[:i]) + list(r[1]) + list(rest)
                    continue
                if r is not None and r[0] == "wrap":
                    # enter (already appended to L by the hook); the body; the exit lines on every way out of the body
                    exit_lines = r[1]
                    self.finally_stmt(s.body, lambda env_, L_: L_.extend(exit_lines), env, L, tail, rest, rest_after, f"with at line {s.lineno}")
                    return L, False
            raise Unsupported(f"{self.fs.qual}: statement {type(s).__name__} at line {s.lineno}")
        L.extend(self.tail_fall(tail, env))
        return L, True

    def finally_stmt(self, body, emit_fin, env, L, tail, rest, rest_after, what):
        """`try: body finally: fin` (and context managers: fin = the exit): the body's outcome - fell through, returned, raised - is
        kept as a value, the finaliser runs (what it raises replaces the outcome), then the outcome takes effect.  Consumes the
        rest of the enclosing block."""
        if self.monad != "M":
            raise Unsupported(f"{self.fs.qual}: {what} in a pure function")
        if any(isinstance(n, (ast.Break, ast.Continue)) for b in body for n in ast.walk(b)):
            raise Unsupported(f"{self.fs.qual}: break/continue inside {what}")
        ret_in = self.has_return(body)
        if ret_in and tail["kind"] not in ("fn", "tryret", "retonly"):
            raise Unsupported(f"{self.fs.qual}: return inside {what} inside a loop or joined branch")
        never_falls = self.terminates(body)
        bound = self.assigned(body)
        later = self.loaded(rest) | self.loaded(rest_after)
        vars_ = [v for v in bound if v in later or v in env]
        eb = dict(env)
        if ret_in and never_falls:
            kind = {"kind": "retonly"}
        elif ret_in:
            kind = {"kind": "tryret", "vars": vars_}
        else:
            kind = {"kind": "join", "vars": vars_}
        lb, _ = self.block(body, eb, kind, [])
        r = self.tr.fresh("r")
        L.append(f"let {r} ← PyM.attempt (do")
        L.extend("    " + x for x in lb)
        L.append("  )")
        emit_fin(dict(env), L)
        L.append(f"match {r} with")

        def ret_line(rv):
            return f"pure (Sum.inl {rv})" if tail["kind"] == "tryret" else f"pure {rv}"
        eo = dict(env)
        for v in vars_:
            eo[v] = eb[v]
        rv = self.tr.fresh("rv")
        if ret_in and never_falls:
            L.append(f"| .ok {rv} =>")
            L.append("  " + ret_line(rv))
        elif ret_in:
            L.append(f"| .ok (Sum.inl {rv}) =>")
            L.append("  " + ret_line(rv))
            L.append(f"| .ok (Sum.inr {self.tuple_pat(vars_)}) =>")
            lo, _ = self.block(list(rest), eo, tail, rest_after)
            L.extend("  " + x for x in lo)
        else:
            L.append(f"| .ok {self.tuple_pat(vars_)} =>")
            lo, _ = self.block(list(rest), eo, tail, rest_after)
            L.extend("  " + x for x in lo)
        L.append("| .error e_ => PyM.throw e_")

    def is_log_guard(self, s: ast.If):
        """`if _LOGGER.isEnabledFor(...):` whose body only builds strings and logs"""
        t = ast.unparse(s.test)
        if not t.startswith("_LOGGER.isEnabledFor("):
            return False
        if s.orelse:
            raise Unsupported(f"{self.fs.qual}: logging guard with else")
        for b in s.body:
            if self.is_logging(b):
                self.check_log_args(b.value)
                continue
            if isinstance(b, ast.Assign) and all(isinstance(t_, ast.Name) for t_ in b.targets):
                # string building: only joins/f-strings over names and attributes
                for n in ast.walk(b.value):
                    if isinstance(n, ast.Call) and not (isinstance(n.func, ast.Attribute) and n.func.attr == "join"):
                        raise Unsupported(f"{self.fs.qual}: call inside a logging guard: {ast.unparse(b)[:80]}")
                continue
            raise Unsupported(f"{self.fs.qual}: statement inside a logging guard: {ast.unparse(b)[:80]}")
        return True

    # ---------- raise
    def raise_stmt(self, s: ast.Raise, env, L):
        if s.exc is None:
            if getattr(self, "handler_exc", None):
                return f"PyM.throw {self.handler_exc[-1]}"
            raise Unsupported(f"{self.fs.qual}: bare raise")
        e = s.exc
        name = None
        if isinstance(e, ast.Call) and isinstance(e.func, ast.Name):
            name = e.func.id
            for a in list(e.args) + [k.value for k in e.keywords]:
                for n in ast.walk(a):
                    # the message may be built from names, slices and .hex() only: nothing that can raise itself
                    if isinstance(n, ast.Call) and not (isinstance(n.func, ast.Attribute) and n.func.attr == "hex" and not n.args):
                        raise Unsupported(f"{self.fs.qual}: call inside exception arguments")
                    if isinstance(n, ast.Subscript) and not isinstance(n.slice, ast.Slice):
                        raise Unsupported(f"{self.fs.qual}: index inside exception arguments")
        elif isinstance(e, ast.Name):
            name = e.id
        if name is None:
            raise Unsupported(f"{self.fs.qual}: raise {ast.unparse(e)[:60]}")
        return self.throw_cls(name)

    # ---------- conditions
    def cond(self, node, env, L):
        term, ty = self.ex(node, env, L)
        return self.truth(term, ty)

    def truth(self, term, ty):
        if ty == BOOL:
            return term
        if ty == NAT:
            return f"({term} != 0)"
        if ty == INT:
            return f"({term} != 0)"
        if ty == BYTES or (isinstance(ty, tuple) and ty[0] in ("list", "dict")):
            return f"(!{paren(term)}.isEmpty)"
        if isinstance(ty, tuple) and ty[0] == "opt":
            return f"{paren(term)}.isSome"
        raise Unsupported(f"{self.fs.qual}: truthiness of {ty}")

    def coerce(self, term, ty, want):
        if ty == want or want is None:
            return term
        if ty == ("emptycoll",) and isinstance(want, tuple) and want[0] in ("dict", "set", "list"):
            return "[]"
        if ty == BOOL and want == NAT:
            return f"(b2n {paren(term)})"
        if ty == NAT and want == INT:
            return f"(Int.ofNat {paren(term)})"
        if isinstance(want, tuple) and want[0] == "opt" and ty == want[1]:
            return f"(some {paren(term)})"
        if isinstance(want, tuple) and want[0] == "opt" and isinstance(ty, tuple) and ty[0] == "opt":
            return term
        if isinstance(want, tuple) and want[0] == "opt" and ty == BOOL and want[1] == NAT:
            return f"(some (b2n {paren(term)}))"
        if ty == ("list", NAT) and want == BYTES:
            raise Unsupported("list of ints used as bytes")
        raise Unsupported(f"{self.fs.qual}: cannot use a value of type {ty} where {want} is expected ({term[:60]})")

    # ---------- assignment
    def assign(self, s, env, L):
        if isinstance(s, ast.AnnAssign):
            if s.value is None:
                return
            targets, value = [s.target], s.value
        elif isinstance(s, ast.AugAssign):
            value = ast.BinOp(left=self.as_load(s.target), op=s.op, right=s.value)
            ast.copy_location(value, s)
            ast.fix_missing_locations(value)
            targets = [s.target]
        else:
            targets, value = s.targets, s.value
        if len(targets) != 1:
            raise Unsupported(f"{self.fs.qual}: chained assignment")
        t = targets[0]
        term, ty = self.ex(value, env, L)
        if isinstance(t, ast.Name) and isinstance(ty, tuple) and ty[0] == "struct":
            self.fresh_structs = getattr(self, "fresh_structs", set())
            if term.startswith("({} :"):
                self.fresh_structs.add(t.id)     # built here: nobody else holds it
            else:
                self.fresh_structs.discard(t.id)
        self.bind_target(t, term, ty, env, L)

    @staticmethod
    def as_load(t):
        import copy

        t2 = copy.deepcopy(t)
        for n in ast.walk(t2):
            if hasattr(n, "ctx"):
                n.ctx = ast.Load()
        return t2

    def bind_target(self, t, term, ty, env, L):
        if isinstance(t, ast.Name):
            if t.id == "_":
                return
            L.append(f"let {ident(t.id)} := {term}")
            env[t.id] = ty
            return
        if isinstance(t, ast.Tuple):
            if not (isinstance(ty, tuple) and ty[0] == "tuple" and len(ty[1]) == len(t.elts)):
                raise Unsupported(f"{self.fs.qual}: tuple unpacking of {ty}")
            names = []
            post = []
            for e, et in zip(t.elts, ty[1]):
                if isinstance(e, ast.Name):
                    if e.id == "_":
                        names.append("_")
                    else:
                        names.append(ident(e.id))
                        env[e.id] = et
                else:
                    tmp = self.tr.fresh("u")
                    names.append(tmp)
                    post.append((e, tmp, et))
            L.append(f"let ({', '.join(names)}) := {term}")
            for e, tmp, et in post:
                self.bind_target(e, tmp, et, env, L)
            return
        if isinstance(t, ast.Attribute) and isinstance(t.value, ast.Name) and t.value.id in env \
                and isinstance(env[t.value.id], tuple) and env[t.value.id][0] == "struct":
            sname = env[t.value.id][1]
            fields = self.tr.spec.structs[sname]
            # Python mutates the object in place; the translation rebinds a copy.  That is the same thing only for an object
            # nobody else holds (built in this function) - or where the module spec states why sharing cannot be observed
            if t.value.id not in getattr(self, "fresh_structs", set()) and \
                    t.value.id not in self.tr.spec.alias_ok.get(self.fs.qual, []):
                raise Unsupported(f"{self.fs.qual}: attribute assignment on {t.value.id}, an object that may be shared")
            if t.attr not in fields:
                raise Unsupported(f"{self.fs.qual}: {sname} has no field {t.attr}")
            v = self.coerce(term, ty, fields[t.attr])
            loc = ident(t.value.id)
            L.append(f"let {loc} := {{ {loc} with {ident(t.attr)} := {v} }}")
            return
        if isinstance(t, ast.Attribute) and isinstance(t.value, ast.Name) and t.value.id == "self" and self.is_state_method:
            st = self.tr.spec.state
            key = ast.unparse(t)
            if key in st.assigns:
                st.assigns[key](self, (term, ty), L)
                return
            if t.attr in st.fields:
                fld, fty = st.fields[t.attr]
                v = self.coerce(term, ty, fty)
                L.append(f"PyM.modify fun s => {{ s with {fld} := {v} }}")
                return
            raise Unsupported(f"{self.fs.qual}: assignment to self.{t.attr}")
        if isinstance(t, ast.Subscript) and self.is_state_method:
            base = ast.unparse(t.value)
            st = self.tr.spec.state
            if isinstance(t.value, ast.Attribute) and isinstance(t.value.value, ast.Name) and t.value.value.id == "self" \
                    and t.value.attr in st.fields and isinstance(st.fields[t.value.attr][1], tuple) and st.fields[t.value.attr][1][0] == "dict":
                fld, fty = st.fields[t.value.attr]
                k, kt = self.ex(t.slice, env, L)
                k = self.coerce(k, kt, NAT)
                v = self.coerce(term, ty, fty[2])
                L.append(f"PyM.modify fun s => {{ s with {fld} := dictSet s.{fld} {paren(k)} {paren(v)} }}")
                return
        raise Unsupported(f"{self.fs.qual}: assignment target {ast.unparse(t)[:60]}")

    # ---------- expression statements
    def expr_stmt(self, v, env, L):
        if isinstance(v, ast.Call) and isinstance(v.func, ast.Attribute) and isinstance(v.func.value, ast.Name) \
                and v.func.value.id in env and env[v.func.value.id] == BYTES:
            # in-place bytearray mutation of a local
            name = v.func.value.id
            m = v.func.attr
            if m == "append" and len(v.args) == 1:
                a, at = self.ex(v.args[0], env, L)
                a = self.coerce(a, at, NAT)
                tmp = self.tr.fresh("b")
                L.append(f"let {tmp} ← {self.lift('bytesOf [' + a + ']')}")
                L.append(f"let {ident(name)} := {ident(name)} ++ {tmp}")
                return
            if m == "extend" and len(v.args) == 1:
                a, at = self.ex(v.args[0], env, L)
                if at == ("list", NAT):
                    tmp = self.tr.fresh("b")
                    L.append(f"let {tmp} ← {self.lift('bytesOf ' + paren(a))}")
                    a = tmp
                elif at != BYTES:
                    raise Unsupported(f"{self.fs.qual}: extend with {at}")
                L.append(f"let {ident(name)} := {ident(name)} ++ {a}")
                return
            if m == "clear" and not v.args:
                L.append(f"let {ident(name)} : List UInt8 := []")
                return
        if isinstance(v, ast.Call) and isinstance(v.func, ast.Attribute) and isinstance(v.func.value, ast.Attribute) \
                and isinstance(v.func.value.value, ast.Name) and v.func.value.value.id == "self" and self.is_state_method:
            st = self.tr.spec.state
            fa = v.func.value.attr
            if fa in st.fields and st.fields[fa][1] == BYTES:
                fld = st.fields[fa][0]
                m = v.func.attr
                if m == "extend" and len(v.args) == 1:
                    a, at = self.ex(v.args[0], env, L)
                    if at != BYTES:
                        raise Unsupported(f"{self.fs.qual}: extend with {at}")
                    L.append(f"PyM.modify fun s => {{ s with {fld} := s.{fld} ++ {a} }}")
                    return
                if m == "clear" and not v.args:
                    L.append(f"PyM.modify fun s => {{ s with {fld} := [] }}")
                    return
                if m == "pop" and len(v.args) == 1:
                    a, at = self.ex(v.args[0], env, L)
                    a = self.coerce(a, at, NAT)
                    s_ = self.tr.fresh("s")
                    b_ = self.tr.fresh("b")
                    L.append(f"let {s_} ← PyM.get")
                    L.append(f"let {b_} ← PyM.lift (popAt {s_}.{fld} {paren(a)})")
                    L.append(f"PyM.modify fun s => {{ s with {fld} := {b_} }}")
                    return
        term, ty = self.ex(v, env, L, stmt=True)
        if term not in ("()", "") and ty != UNIT:
            L.append(f"let _ := {term}")

    def lift(self, e_term):
        """a term of type Except PyErr α used in the current monad"""
        if self.monad == "M":
            return f"PyM.lift ({e_term})"
        return e_term

    # ---------- loops
    def loop_common(self, s, env, rest, rest_after, body_stmts):
        asg = self.assigned(body_stmts)
        target_names = []
        if isinstance(s, ast.For):
            target_names = [n.id for n in ast.walk(s.target) if isinstance(n, ast.Name)]
        carried = [v for v in asg if v in env and v not in target_names]
        for v in asg:
            if v not in env and v not in target_names and (v in self.loaded(rest) or v in self.loaded(rest_after)):
                raise Unsupported(f"{self.fs.qual}: {v} is first assigned inside the loop at line {s.lineno} and used after it")
        return carried

    def for_stmt(self, s: ast.For, env, L, tail, rest, rest_after):
        it_term, elem_ty = self.iter_source(s.iter, env, L)
        carried = self.loop_common(s, env, rest, rest_after, s.body)
        has_ret = self.has_return(s.body)
        self.nloops += 1
        lname = f"{self.name}.loop{self.nloops}"
        benv = dict(env)
        BL = []
        # bind loop target
        xname = self.tr.fresh("x")
        self.bind_target(s.target, xname, elem_ty, benv, BL)
        rho = lean_ty(self.ret) if has_ret else "Empty"
        bl, _ = self.block(s.body, benv, {"kind": "loop", "carried": carried}, [])
        BL.extend(bl)
        captured = [v for v in env if v not in carried and (v in self.loaded(s.body))]
        cap_params = "".join(f" ({ident(v)} : {lean_ty(env[v])})" for v in captured)
        if self.self_frame:
            cap_params = " " + " ".join(f"(self_{ident(f)} : {lean_ty(self.tr.field_ty(f))})" for f in self.self_fields) + cap_params
        sig_t = self.tuple_ty(carried, env)
        text = [f"/-- body of the `for` loop at line {s.lineno} of `{self.fs.qual}` -/",
                f"def {lname}{cap_params} (st : {sig_t}) ({xname} : {lean_ty(elem_ty)}) : {self.mty(f'Ctl ({sig_t}) {paren(rho)}')} := do"]
        if carried:
            text.append(f"  let {self.tuple_pat(carried)} := st")
        text.extend("  " + x for x in BL)
        self.loops.append("\n".join(text) + "\n")
        cap_args = "".join(f" {ident(v)}" for v in captured)
        if self.self_frame:
            cap_args = " " + " ".join(f"self_{ident(f)}" for f in self.self_fields) + cap_args
        loopf = "forM" if self.monad == "M" else "forE"
        call = f"{loopf} ({lname}{cap_args}) {paren(it_term)} {self.tuple_term(carried)}"
        r = self.tr.fresh("r")
        if not has_ret:
            brk = self.tr.fresh("broke") if s.orelse else "_"
            L.append(f"let ({self.tuple_pat(carried)}, {brk}) := LoopRes.noRet (← {call})")
            if s.orelse:
                # for-else without return inside the loop: run the else block when not broken
                raise Unsupported(f"{self.fs.qual}: for-else on a loop without return")
            return
        # body may return: the rest of the enclosing block continues in the `.done` arm
        L.append(f"match (← {call}) with")
        L.append(f"| .ret {r} =>")
        if tail["kind"] == "loop":
            L.append(f"  pure (Ctl.ret {r})")
        elif tail["kind"] == "fn":
            L.append(f"  pure {r}")
        else:
            raise Unsupported(f"{self.fs.qual}: loop with return inside a joined branch")
        brk = self.tr.fresh("broke")
        L.append(f"| .done {self.tuple_pat(carried)} {brk} =>")
        e2 = dict(env)
        if s.orelse:
            # `else:` runs when the loop was not left by break; our loops with return never break here
            if any(isinstance(n, ast.Break) for b in s.body for n in ast.walk(b)):
                raise Unsupported(f"{self.fs.qual}: for-else with break")
            l2, _ = self.block(list(s.orelse) + list(rest), e2, tail, rest_after)
        else:
            l2, _ = self.block(list(rest), e2, tail, rest_after)
        L.extend("  " + x for x in l2)

    def while_stmt(self, s, env, L, tail, rest, rest_after):
        """`while cond:` -> whileM with fuel (FnSpec.fuel, a Lean term over the parameters and the state `s0` at loop entry)"""
        if self.monad != "M":
            raise Unsupported(f"{self.fs.qual}: while loop in a pure function")
        if s.orelse:
            raise Unsupported(f"{self.fs.qual}: while-else")
        if not self.fs.fuel:
            raise Unsupported(f"{self.fs.qual}: while loop without a fuel expression in the translation spec")
        if self.has_return(s.body):
            raise Unsupported(f"{self.fs.qual}: return inside a while loop")
        carried = self.loop_common(s, env, rest, rest_after, s.body)
        self.nloops += 1
        lname = f"{self.name}.loop{self.nloops}"
        benv = dict(env)
        BL = []
        c = self.cond(s.test, benv, BL)
        body_l, _ = self.block(s.body, benv, {"kind": "loop", "carried": carried}, [])
        captured = [v for v in env if v not in carried and (v in self.loaded(s.body) or v in self.loaded([ast.Expr(s.test)]))]
        cap_params = "".join(f" ({ident(v)} : {lean_ty(env[v])})" for v in captured)
        sig_t = self.tuple_ty(carried, env)
        text = [f"/-- one round of the `while` loop at line {s.lineno} of `{self.fs.qual}`: the test, then the body -/",
                f"def {lname}{cap_params} (st : {sig_t}) : {self.mty(f'Ctl ({sig_t}) Empty')} := do"]
        if carried:
            text.append(f"  let {self.tuple_pat(carried)} := st")
        text.extend("  " + x for x in BL)
        text.append(f"  if !{paren(c)} then pure (Ctl.brk {self.tuple_term(carried)}) else do")
        text.extend("    " + x for x in body_l)
        self.loops.append("\n".join(text) + "\n")
        cap_args = "".join(f" {ident(v)}" for v in captured)
        s0 = self.tr.fresh("s")
        L.append(f"let {s0} ← PyM.get")
        fuel = self.fs.fuel.replace("{s}", s0)
        L.append(f"let ({self.tuple_pat(carried)}, _) := LoopRes.noRet (← whileM ({lname}{cap_args}) ({fuel}) {self.tuple_term(carried)})")

    def try_stmt(self, s, env, L, tail, rest, rest_after):
        """two shapes: (A) `try: x, y = next(<generator>)  except StopIteration: <block>`; (B) try/except[/else] whose handler does
        not read names bound in the try body.  Returns True when the rest of the enclosing block has been consumed."""
        if s.finalbody:
            if s.handlers or s.orelse:
                raise Unsupported(f"{self.fs.qual}: try/except/finally")
            if self.has_jump(s.finalbody):
                raise Unsupported(f"{self.fs.qual}: return/break/continue inside a finally block")
            if any(v in self.loaded(s.finalbody) for v in self.assigned(s.body) if v not in env):
                raise Unsupported(f"{self.fs.qual}: finally block reads a name bound in the try body")
            if any(v in self.loaded(rest) or v in self.loaded(rest_after) for v in self.assigned(s.finalbody)):
                raise Unsupported(f"{self.fs.qual}: name bound in a finally block and used later")

            def emit_fin(env_, L_):
                lf, _ = self.block(s.finalbody, env_, {"kind": "join", "vars": []}, [])
                # (the block ends with `pure ()`: run it as one action)
                L_.append("(do")
                L_.extend("    " + x for x in lf)
                L_.append("  )")
            self.finally_stmt(s.body, emit_fin, env, L, tail, rest, rest_after, f"try/finally at line {s.lineno}")
            return True
        if self.monad != "M":
            raise Unsupported(f"{self.fs.qual}: try in a pure function")
        # ---- shape A
        if len(s.body) == 1 and isinstance(s.body[0], ast.Assign) and isinstance(s.body[0].value, ast.Call) \
                and isinstance(s.body[0].value.func, ast.Name) and s.body[0].value.func.id == "next" \
                and len(s.handlers) == 1 and isinstance(s.handlers[0].type, ast.Name) and s.handlers[0].type.id == "StopIteration" \
                and not s.orelse:
            call = s.body[0].value
            if len(call.args) != 1 or not isinstance(call.args[0], ast.GeneratorExp):
                raise Unsupported(f"{self.fs.qual}: next() of something other than a generator expression")
            g = call.args[0]
            gen = g.generators[0]
            ok = (len(g.generators) == 1 and not gen.is_async and len(gen.ifs) == 1 and isinstance(gen.iter, ast.Call)
                  and isinstance(gen.iter.func, ast.Name) and gen.iter.func.id == "enumerate" and len(gen.iter.args) == 1
                  and isinstance(gen.target, ast.Tuple) and len(gen.target.elts) == 2 and all(isinstance(e, ast.Name) for e in gen.target.elts)
                  and isinstance(g.elt, ast.Tuple) and [ast.unparse(e) for e in g.elt.elts] == [e.id for e in gen.target.elts])
            if not ok:
                raise Unsupported(f"{self.fs.qual}: generator shape {ast.unparse(g)[:80]}")
            buf, bt = self.ex(gen.iter.args[0], env, L)
            if bt != BYTES:
                raise Unsupported(f"{self.fs.qual}: enumerate over {bt}")
            iname, bname = gen.target.elts[0].id, gen.target.elts[1].id
            e2 = dict(env)
            e2[iname] = NAT
            e2[bname] = NAT
            sub = []
            pred = self.cond(gen.ifs[0], e2, sub)
            if sub:
                raise Unsupported(f"{self.fs.qual}: generator condition that can raise")
            tmp = self.tr.fresh("n")
            L.append(f"match firstIdx (fun {ident(bname)} => {pred}) {paren(buf)} 0 with")
            L.append("| none =>")
            eh = dict(env)
            lh, _ = self.block(list(s.handlers[0].body) + ([] if self.terminates(s.handlers[0].body) else list(rest)), eh, tail, rest_after)
            L.extend("  " + x for x in lh)
            L.append(f"| some {tmp} =>")
            es = dict(env)
            LS = []
            self.bind_target(s.body[0].targets[0], tmp, tup(NAT, NAT), es, LS)
            ls, _ = self.block(list(rest), es, tail, rest_after)
            L.extend("  " + x for x in LS + ls)
            return True
        # ---- shape B
        bound = self.assigned(s.body)
        for h in s.handlers:
            if any(v in self.loaded(h.body) for v in bound if v not in env):
                raise Unsupported(f"{self.fs.qual}: except handler reads a name bound in the try body")
        classes = []
        for h in s.handlers:
            if h.name:
                # the bound exception may only be looked at by logging calls (which are dropped)
                for st_ in h.body:
                    for n_ in ast.walk(st_):
                        if isinstance(n_, ast.Name) and n_.id == h.name and not self.is_logging(st_):
                            raise Unsupported(f"{self.fs.qual}: `except ... as {h.name}` whose handler uses the exception object")
            if h.type is None or (isinstance(h.type, ast.Name) and h.type.id == "Exception"):
                classes = None
            elif isinstance(h.type, ast.Name) and classes is not None:
                classes.append(h.type.id)
            elif isinstance(h.type, (ast.Tuple, ast.Attribute)) and classes is not None:
                # classes given by (dotted) name: resolved in the module's namespace; every subclass known to the interpreter is
                # caught as well, so the scripted command layer may raise any of them
                for el in (h.type.elts if isinstance(h.type, ast.Tuple) else [h.type]):
                    try:
                        obj = eval(ast.unparse(el), vars(self.tr.mod))  # noqa: S307
                    except Exception:
                        obj = None
                    if not (isinstance(obj, type) and issubclass(obj, BaseException)):
                        raise Unsupported(f"{self.fs.qual}: except clause {ast.unparse(el)[:40]}")
                    todo, seen_ = [obj], []
                    while todo:
                        c_ = todo.pop()
                        # (subclasses defined by the repository itself; what other loaded libraries derive from a builtin is
                        # not something the command layer of bellows raises)
                        if c_.__name__ not in seen_ and (c_ is obj or c_.__module__.startswith("bellows")):
                            seen_.append(c_.__name__)
                        todo += [x for x in c_.__subclasses__() if x.__name__ not in seen_ and x not in todo]
                    for nm in sorted(seen_):
                        if nm not in classes:
                            classes.append(nm)
            else:
                raise Unsupported(f"{self.fs.qual}: except clause {ast.unparse(h.type)[:40]}")
        if len(s.handlers) != 1:
            raise Unsupported(f"{self.fs.qual}: several except clauses")
        # the try body yields the names it binds (those used later); of the control transfers only `return` is supported, at function level
        ret_in_try = self.has_return(s.body)
        if self.has_jump(s.body) and not (ret_in_try and tail["kind"] == "fn" and not self.has_jump([x for x in s.body if False])):
            raise Unsupported(f"{self.fs.qual}: return/break/continue inside a try body")
        if ret_in_try and any(isinstance(n, (ast.Break, ast.Continue)) for b in s.body for n in ast.walk(b)):
            raise Unsupported(f"{self.fs.qual}: break/continue inside a try body")
        later = self.loaded(s.orelse) | self.loaded(rest) | self.loaded(rest_after)
        vars_ = [v for v in bound if v in later or v in env]
        eb = dict(env)
        if ret_in_try:
            lb, _ = self.block(s.body, eb, {"kind": "tryret", "vars": vars_}, [])
        else:
            lb, _ = self.block(s.body, eb, {"kind": "join", "vars": vars_}, [])
        r = self.tr.fresh("r")
        L.append(f"let {r} ← PyM.attempt (do")
        L.extend("    " + x for x in lb)
        L.append("  )")
        L.append(f"match {r} with")
        if ret_in_try:
            rv = self.tr.fresh("rv")
            L.append(f"| .ok (Sum.inl {rv}) =>")
            L.append(f"  pure {rv}")
            L.append(f"| .ok (Sum.inr {self.tuple_pat(vars_)}) =>")
        else:
            L.append(f"| .ok {self.tuple_pat(vars_)} =>")
        eo = dict(env)
        for v in vars_:
            eo[v] = eb[v]
        lo, _ = self.block(list(s.orelse) + list(rest), eo, tail, rest_after)
        L.extend("  " + x for x in lo)
        L.append("| .error e_ =>")
        eh = dict(env)
        self.handler_exc = getattr(self, "handler_exc", None) or []
        self.handler_exc.append("e_")
        try:
            lh, _ = self.block(list(s.handlers[0].body) + ([] if self.terminates(s.handlers[0].body) else list(rest)), eh, tail, rest_after)
        finally:
            self.handler_exc.pop()
        cls_term = "[]" if classes is None else "[" + ", ".join(f'"{c}"' for c in classes) + "]"
        L.append(f"  if PyErr.caughtBy e_ {cls_term} then do")
        L.extend("    " + x for x in lh)
        L.append("  else PyM.throw e_")
        return True

    def iter_source(self, node, env, L):
        """(Lean list term, element type)"""
        if isinstance(node, ast.Call) and isinstance(node.func, ast.Name) and node.func.id == "range":
            args = [self.ex(a, env, L) for a in node.args]
            if len(args) == 1:
                return f"rangeN {paren(self.coerce(args[0][0], args[0][1], NAT))}", NAT
            if len(args) == 2:
                if isinstance(node.args[0], ast.Constant) and node.args[0].value == 0 and args[1][1] == NAT:
                    return f"rangeN {paren(args[1][0])}", NAT
                if args[0][1] == NAT and args[1][1] == NAT:
                    a, b = args[0][0], args[1][0]
                    return f"(rangeI (Int.ofNat {paren(a)}) (Int.ofNat {paren(b)}))", INT
                a = self.coerce(args[0][0], args[0][1], INT)
                b = self.coerce(args[1][0], args[1][1], INT)
                return f"rangeI {paren(a)} {paren(b)}", INT
            raise Unsupported(f"{self.fs.qual}: range with step")
        if isinstance(node, ast.List) and node.elts and all(isinstance(e, ast.Name) and e.id in self.tr.union_of for e in node.elts):
            u = self.tr.union_of[node.elts[0].id]
            return "[" + ", ".join(f"{u}Cls.{e.id}" for e in node.elts) + "]", ("cls", f"{u}Cls")
        if isinstance(node, ast.Call) and isinstance(node.func, ast.Attribute) and node.func.attr == "values" and not node.args:
            d, dt = self.ex(node.func.value, env, L)
            if isinstance(dt, tuple) and dt[0] == "dict":
                return f"({d}.map (·.2))", dt[2]
        term, ty = self.ex(node, env, L)
        if ty == BYTES:
            return f"ints {paren(term)}", NAT
        if isinstance(ty, tuple) and ty[0] == "list":
            return term, ty[1]
        raise Unsupported(f"{self.fs.qual}: iteration over {ast.unparse(node)[:60]} : {ty}")

    # ---------- expressions
    BINOPS = {ast.Add: "+", ast.Mult: "*", ast.Mod: "%", ast.FloorDiv: "/", ast.BitAnd: "&&&", ast.BitOr: "|||",
              ast.BitXor: "^^^", ast.LShift: "<<<", ast.RShift: ">>>"}
    CMPOPS = {ast.Eq: "==", ast.NotEq: "!=", ast.Lt: "<", ast.LtE: "<=", ast.Gt: ">", ast.GtE: ">="}

    def ex(self, node, env, L, stmt=False):
        """translate an expression; monadic sub-expressions are bound to temporaries appended to L (in
        Python's left-to-right evaluation order); returns (pure Lean term, type)"""
        tr = self.tr
        if isinstance(node, ast.Constant):
            v = node.value
            if isinstance(v, bool):
                return ("true" if v else "false"), BOOL
            if isinstance(v, int):
                return (str(v), NAT) if v >= 0 else (f"({v} : Int)", INT)
            if v is None:
                return "none", opt(None)
            if isinstance(v, bytes):
                return "[" + ", ".join(str(x) for x in v) + "]", BYTES
            if isinstance(v, str):
                return '"' + v.replace("\\", "\\\\").replace('"', '\\"') + '"', STR
            raise Unsupported(f"{self.fs.qual}: constant {v!r}")
        if isinstance(node, ast.JoinedStr):
            return '""', STR
        if isinstance(node, ast.Name):
            n = node.id
            if n in env:
                return ident(n), env[n]
            if n == "cls" and self.kind == "classmethod":
                u = tr.union_of[self.owner]
                return f"{u}Cls.{self.owner}", ("cls", f"{u}Cls")
            if n in tr.union_of:
                u = tr.union_of[n]
                return f"{u}Cls.{n}", ("cls", f"{u}Cls")
            cv = tr.const_value(n)
            if cv is not None:
                if cv[1] in (BYTES, ("list", NAT)):
                    return tr.named_const(n, cv), cv[1]
                return cv
            raise Unsupported(f"{self.fs.qual}: name {n}")
        if isinstance(node, ast.UnaryOp):
            if isinstance(node.op, ast.Not):
                c = self.cond(node.operand, env, L)
                return f"(!{paren(c)})", BOOL
            if isinstance(node.op, ast.USub):
                t, ty = self.ex(node.operand, env, L)
                if ty == NAT:
                    return f"(-(Int.ofNat {paren(t)}))", INT
                if ty == INT:
                    return f"(-{paren(t)})", INT
            raise Unsupported(f"{self.fs.qual}: unary {ast.unparse(node)[:40]}")
        if isinstance(node, ast.BinOp):
            return self.binop(node, env, L)
        if isinstance(node, ast.BoolOp) and isinstance(node.op, ast.Or) and len(node.values) == 2:
            sub1, sub2 = [], []
            a, at = self.ex(node.values[0], env, sub1)
            if at == opt(EXC) and not sub1:
                b, bt = self.ex(node.values[1], env, sub2)
                if bt == EXC and not sub2:
                    # `exc or Error(...)`: an exception object is always truthy
                    return f"(Option.getD {paren(a)} {paren(b)})", EXC
        if isinstance(node, ast.BoolOp):
            parts = []
            for v in node.values:
                sub = []
                c = self.cond(v, env, sub)
                if sub:
                    if parts:
                        # a later operand that has effects / can raise is evaluated only when the earlier ones let it:
                        #   a or b  ==>  t <- if a then pure true else (do b)
                        is_and = isinstance(node.op, ast.And)
                        sofar = "(" + (" && " if is_and else " || ").join(parts) + ")"
                        tmp = self.tr.fresh("c")
                        L.append(f"let {tmp} ← (")
                        L.append(f"  if {sofar} then (do" if is_and else f"  if !{sofar} then (do")
                        L.extend("    " + x for x in sub)
                        L.append(f"    pure {paren(c)}")
                        L.append(f"  ) else (pure {'false' if is_and else 'true'}))")
                        parts = [tmp]
                        continue
                    L.extend(sub)
                parts.append(paren(c))
            op = " && " if isinstance(node.op, ast.And) else " || "
            return "(" + op.join(parts) + ")", BOOL
        if isinstance(node, ast.Compare):
            return self.compare(node, env, L)
        if isinstance(node, ast.IfExp):
            c = self.cond(node.test, env, L)
            s1, s2 = [], []
            a, at = self.ex(node.body, env, s1)
            b, bt = self.ex(node.orelse, env, s2)
            if s1 or s2:
                raise Unsupported(f"{self.fs.qual}: conditional expression whose arms can raise")
            if at != bt:
                raise Unsupported(f"{self.fs.qual}: conditional expression of two types")
            return f"(if {c} then {a} else {b})", at
        if isinstance(node, ast.Await):
            if not self.fs.allow_async:
                raise Unsupported(f"{self.fs.qual}: await")
            if not isinstance(node.value, ast.Call):
                # awaiting an object (a future held in a name or attribute): the module's hook says what that means
                if tr.spec.ext_expr is not None:
                    syn = ast.Call(func=ast.Name(id="__await__", ctx=ast.Load()), args=[node.value], keywords=[])
                    ast.copy_location(syn, node)
                    ast.fix_missing_locations(syn)
                    r = tr.spec.ext_expr(self, syn, env, L)
                    if r is not None:
                        return r
                raise Unsupported(f"{self.fs.qual}: await of something that is not a call: {ast.unparse(node)[:60]}")
            self.awaiting = True
            try:
                return self.ex(node.value, env, L, stmt)
            finally:
                self.awaiting = False
        if isinstance(node, (ast.Call, ast.Attribute, ast.Subscript)) and tr.spec.ext_expr is not None:
            r = tr.spec.ext_expr(self, node, env, L)
            if r is not None:
                return r
        if isinstance(node, ast.Call) and isinstance(node.func, ast.Attribute) and node.func.attr == "get" and isinstance(node.func.value, ast.Dict) \
                and len(node.args) == 2 and not node.keywords:
            # {"name": int, ...}.get(key, int): a literal table from strings to integers
            def _int(n):
                if isinstance(n, ast.Constant) and isinstance(n.value, int) and not isinstance(n.value, bool):
                    return n.value
                if isinstance(n, ast.UnaryOp) and isinstance(n.op, ast.USub) and isinstance(n.operand, ast.Constant) and isinstance(n.operand.value, int):
                    return -n.operand.value
                raise Unsupported(f"{self.fs.qual}: literal table value {ast.unparse(n)[:30]}")
            d = node.func.value
            if not all(isinstance(k_, ast.Constant) and isinstance(k_.value, str) for k_ in d.keys):
                raise Unsupported(f"{self.fs.qual}: literal table with non-string keys")
            if len({k_.value for k_ in d.keys}) != len(d.keys):
                raise Unsupported(f"{self.fs.qual}: literal table with a repeated key")
            k, kt = self.ex(node.args[0], env, L)
            if kt != STR:
                raise Unsupported(f"{self.fs.qual}: literal table looked up with {kt}")
            entries = ", ".join(f'("{k_.value}", ({_int(v_)} : Int))' for k_, v_ in zip(d.keys, d.values))
            return f"((([{entries}] : List (String × Int)).lookup {paren(k)}).getD ({_int(node.args[1])} : Int))", INT
        if isinstance(node, ast.Dict) and not node.keys:
            return "[]", ("emptycoll",)
        if isinstance(node, ast.Attribute):
            return self.attribute(node, env, L)
        if isinstance(node, ast.Subscript):
            return self.subscript(node, env, L)
        if isinstance(node, ast.Call):
            if isinstance(node.func, ast.Name) and node.func.id == "set" and not node.args:
                return "[]", ("emptycoll",)
            if isinstance(node.func, ast.Name) and node.func.id in tr.spec.exc_ctor:
                return tr.spec.exc_ctor[node.func.id](self, node, env, L), EXC
            return self.call(node, env, L, stmt)
        if isinstance(node, ast.Tuple):
            parts = [self.ex(e, env, L) for e in node.elts]
            return "(" + ", ".join(p[0] for p in parts) + ")", tup(*[p[1] for p in parts])
        if isinstance(node, ast.List):
            parts = [self.ex(e, env, L) for e in node.elts]
            if all(p[1] in (NAT, BOOL) for p in parts):
                return "[" + ", ".join(self.coerce(p[0], p[1], NAT) for p in parts) + "]", ("list", NAT)
            raise Unsupported(f"{self.fs.qual}: list literal {ast.unparse(node)[:60]}")
        if isinstance(node, ast.ListComp):
            return self.listcomp(node, env, L)
        raise Unsupported(f"{self.fs.qual}: expression {type(node).__name__}: {ast.unparse(node)[:60]}")

    def binop(self, node, env, L):
        a, at = self.ex(node.left, env, L)
        b, bt = self.ex(node.right, env, L)
        op = type(node.op)
        if at == BYTES and bt == BYTES and op is ast.Add:
            return f"({a} ++ {b})", BYTES
        if at == BOOL:
            a, at = self.coerce(a, at, NAT), NAT
        if bt == BOOL:
            b, bt = self.coerce(b, bt, NAT), NAT
        if op is ast.Sub:
            if at in (NAT, INT) and bt in (NAT, INT):
                return f"({self.coerce(a, at, INT)} - {self.coerce(b, bt, INT)})", INT
            raise Unsupported(f"{self.fs.qual}: {ast.unparse(node)[:60]}")
        if op not in self.BINOPS:
            raise Unsupported(f"{self.fs.qual}: operator in {ast.unparse(node)[:60]}")
        sym = self.BINOPS[op]
        if at == NAT and bt == NAT:
            return f"({a} {sym} {b})", NAT
        if INT in (at, bt) and at in (NAT, INT) and bt in (NAT, INT) and op in (ast.Add, ast.Mult, ast.Mod, ast.FloorDiv):
            # Python's % and // on ints are floor-based: Int.emod / Int.ediv agree for a positive right operand,
            # which the translator requires to be a literal
            if op in (ast.Mod, ast.FloorDiv):
                if not (isinstance(node.right, ast.Constant) and isinstance(node.right.value, int) and node.right.value > 0):
                    raise Unsupported(f"{self.fs.qual}: % or // of a possibly negative int by a non-literal")
                if op is ast.Mod:
                    # the result is in range(b): hand it on as a natural number
                    return f"(({self.coerce(a, at, INT)} % {self.coerce(b, bt, INT)}).toNat)", NAT
            return f"({self.coerce(a, at, INT)} {sym} {self.coerce(b, bt, INT)})", INT
        raise Unsupported(f"{self.fs.qual}: {ast.unparse(node)[:60]} on {at}, {bt}")

    def compare(self, node, env, L):
        if len(node.ops) != 1:
            raise Unsupported(f"{self.fs.qual}: chained comparison")
        op = type(node.ops[0])
        left, right = node.left, node.comparators[0]
        if op in (ast.Is, ast.IsNot):
            if isinstance(right, ast.Constant) and right.value is None:
                key = ast.unparse(left)
                a, at = self.ex(left, env, L)
                if isinstance(at, tuple) and at[0] == "opt":
                    return (f"{paren(a)}.isNone" if op is ast.Is else f"{paren(a)}.isSome"), BOOL
                raise Unsupported(f"{self.fs.qual}: `is None` on {at}")
            # identity with a member of an int enum: for members of one enum class identity is equality; the left operand must be
            # a parameter annotated with that very class (callers hand over members, never bare ints)
            if isinstance(right, ast.Attribute) and self.is_const_chain(right) and isinstance(left, ast.Name):
                try:
                    member = eval(ast.unparse(right), vars(self.tr.mod))  # noqa: S307
                except Exception:
                    member = None
                ann = None
                for x in list(self.node.args.args) + list(self.node.args.kwonlyargs):
                    if x.arg == left.id and x.annotation is not None:
                        ann = ast.unparse(x.annotation).strip("'\"")
                if isinstance(member, enum.Enum) and isinstance(member, int) and ann is not None:
                    try:
                        ann_cls = eval(ann, vars(self.tr.mod))  # noqa: S307
                    except Exception:
                        ann_cls = None
                    if ann_cls is type(member) and env.get(left.id) == NAT:
                        return f"(decide ({ident(left.id)} {'=' if op is ast.Is else '≠'} {int(member)}))", BOOL
            # identity of object references (futures are ids into the heap): `x is y` with x possibly None
            sub = []
            a, at = self.ex(left, env, sub)
            b, bt = self.ex(right, env, sub)
            if isinstance(bt, tuple) and bt[0] == "ref" and at == opt(bt):
                L.extend(sub)
                return (f"({paren(a)} == some {paren(b)})" if op is ast.Is else f"({paren(a)} != some {paren(b)})"), BOOL
            if isinstance(bt, tuple) and bt[0] == "ref" and at == bt:
                L.extend(sub)
                return (f"({paren(a)} == {paren(b)})" if op is ast.Is else f"({paren(a)} != {paren(b)})"), BOOL
            raise Unsupported(f"{self.fs.qual}: `is` comparison {ast.unparse(node)[:60]}")
        if op in (ast.In, ast.NotIn):
            a, at = self.ex(left, env, L)
            b, bt = self.ex(right, env, L)
            neg = "!" if op is ast.NotIn else ""
            if bt == ("list", NAT) and at in (NAT, BOOL):
                return f"({neg}({b} : List Nat).contains {paren(self.coerce(a, at, NAT))})", BOOL
            if isinstance(bt, tuple) and bt[0] == "dict" and at == NAT:
                return f"({neg}(dictGet {paren(b)} {paren(a)}).isSome)", BOOL
            if bt == BYTES and at == BYTES:
                # only the one-byte needle is supported: bytes([X]) in buf
                return f"({neg}bytesContains1 {paren(a)} {paren(b)})", BOOL
            raise Unsupported(f"{self.fs.qual}: membership {ast.unparse(node)[:60]} on {at} in {bt}")
        a, at = self.ex(left, env, L)
        b, bt = self.ex(right, env, L)
        sym = self.CMPOPS[op]
        if at == BOOL and bt == NAT:
            a, at = self.coerce(a, at, NAT), NAT
        if bt == BOOL and at == NAT:
            b, bt = self.coerce(b, bt, NAT), NAT
        if {at, bt} == {NAT, INT}:
            a, b, at, bt = self.coerce(a, at, INT), self.coerce(b, bt, INT), INT, INT
        if at == bt and at in (NAT, INT, BOOL, BYTES, STR) or (at == bt and isinstance(at, tuple) and at[0] in ("enum", "cls", "lean", "struct")):
            if op in (ast.Eq, ast.NotEq) or at in (NAT, INT):
                return f"(decide ({a} {'=' if op is ast.Eq else '≠' if op is ast.NotEq else sym} {b}))" if op in (ast.Eq, ast.NotEq) else f"(decide ({a} {sym} {b}))", BOOL
        raise Unsupported(f"{self.fs.qual}: comparison {ast.unparse(node)[:60]} on {at}, {bt}")

    def attribute(self, node, env, L):
        tr = self.tr
        src = ast.unparse(node)
        if self.is_state_method and src in tr.spec.state.attrs:
            tmpl, ty = tr.spec.state.attrs[src]
            tmp = tr.fresh("s")
            L.append(f"let {tmp} ← PyM.get")
            return tmpl.format(s=tmp), ty
        # member of a plain Enum emitted as an inductive
        if isinstance(node.value, ast.Name) and node.value.id in tr.spec.enums:
            return f"{node.value.id}.{node.attr}", ("enum", node.value.id)
        # enum member / class attribute by reflection: Reserved.FLAG, t.NcpResetCode.X
        try:
            v = eval(src, vars(tr.mod))  # noqa: S307 - the repository's own module namespace, attribute chains only
            if self.is_const_chain(node):
                vt = tr.value_term(v)
                if vt is not None:
                    return vt
        except Exception:
            pass
        if isinstance(node.value, ast.Name) and node.value.id == "self":
            if self.self_frame:
                if node.attr in self.self_fields:
                    return f"self_{ident(node.attr)}", tr.field_ty(node.attr)
                u = tr.union_of[self.owner]
                if node.attr in tr.cls_attrs[u] and self.owner in tr.cls_attrs[u][node.attr]:
                    return str(tr.cls_attrs[u][node.attr][self.owner]), NAT
            if self.is_state_method:
                st = tr.spec.state
                if src in st.attrs:
                    tmpl, ty = st.attrs[src]
                    tmp = tr.fresh("s")
                    L.append(f"let {tmp} ← PyM.get")
                    return tmpl.format(s=tmp), ty
                if node.attr in st.fields:
                    fld, fty = st.fields[node.attr]
                    tmp = tr.fresh("s")
                    L.append(f"let {tmp} ← PyM.get")
                    return f"{tmp}.{fld}", fty
            raise Unsupported(f"{self.fs.qual}: attribute {src}")
        base, bt = self.ex(node.value, env, L)
        if isinstance(bt, tuple) and bt[0] == "struct":
            fields = tr.spec.structs[bt[1]]
            if node.attr in fields:
                return f"{paren(base)}.{ident(node.attr)}", fields[node.attr]
            raise Unsupported(f"{self.fs.qual}: {bt[1]} has no field {node.attr}")
        if isinstance(bt, tuple) and bt[0] == "cls":
            u = bt[1][:-3]
            if node.attr in tr.cls_attrs.get(u, {}):
                return f"({u}Cls.{node.attr} {paren(base)})", NAT
        if isinstance(bt, tuple) and bt[0] == "obj":
            u = bt[1]
            tmp = tr.fresh("a")
            L.append(f"let {tmp} ← {self.lift(f'{u}.get_{node.attr} {paren(base)}')}")
            return tmp, tr.field_ty(node.attr)
        raise Unsupported(f"{self.fs.qual}: attribute {src} on {bt}")

    @staticmethod
    def is_const_chain(node):
        while isinstance(node, ast.Attribute):
            node = node.value
        return isinstance(node, ast.Name) and node.id not in ("self", "cls")

    def subscript(self, node, env, L):
        base, bt = self.ex(node.value, env, L)
        if bt != BYTES:
            if isinstance(bt, tuple) and bt[0] == "tuple" and isinstance(node.slice, ast.Constant) and isinstance(node.slice.value, int) \
                    and 0 <= node.slice.value < len(bt[1]) and len(bt[1]) >= 2:
                k_, n_ = node.slice.value, len(bt[1])
                proj = ".2" * k_ + ("" if k_ == n_ - 1 else ".1")
                return f"{paren(base)}{proj}", bt[1][k_]
            if isinstance(bt, tuple) and bt[0] == "list" and isinstance(node.slice, ast.Constant) and isinstance(node.slice.value, int) and node.slice.value >= 0:
                tmp = self.tr.fresh("v")
                L.append(f"let {tmp} ← {self.lift(f'listAt {paren(base)} {node.slice.value}')}")
                return tmp, bt[1]
            if isinstance(bt, tuple) and bt[0] == "dict":
                k, kt = self.ex(node.slice, env, L)
                tmp = self.tr.fresh("v")
                L.append(f"let {tmp} ← {self.lift(f'dictIndex {paren(base)} {paren(self.coerce(k, kt, NAT))}')}")
                return tmp, bt[2]
            raise Unsupported(f"{self.fs.qual}: subscript on {bt}")
        sl = node.slice
        if isinstance(sl, ast.Slice):
            if sl.step is not None:
                raise Unsupported(f"{self.fs.qual}: slice step")

            def bound(b):
                """('pos', term) | ('neg', term-of-magnitude) | None"""
                if b is None:
                    return None
                if isinstance(b, ast.UnaryOp) and isinstance(b.op, ast.USub):
                    t, ty = self.ex(b.operand, env, L)
                    if ty != NAT:
                        raise Unsupported(f"{self.fs.qual}: slice bound {ast.unparse(b)}")
                    if isinstance(b.operand, ast.Constant) and b.operand.value == 0:
                        raise Unsupported(f"{self.fs.qual}: slice bound -0")
                    return ("neg", t)
                t, ty = self.ex(b, env, L)
                if ty == NAT:
                    return ("pos", t)
                raise Unsupported(f"{self.fs.qual}: slice bound {ast.unparse(b)} of type {ty}")

            lo, hi = bound(sl.lower), bound(sl.upper)
            if lo is None and hi is None:
                return base, BYTES
            if hi is None:
                if lo[0] == "pos":
                    return f"(sliceFrom {paren(base)} {paren(lo[1])})", BYTES
                # data[-k:] with k > 0 (a variable k = 0 would mean the whole array in Python as well: -0 == 0)
                if not self.is_pos_literal_or_const(sl.lower.operand):
                    raise Unsupported(f"{self.fs.qual}: data[-k:] with k not a positive constant")
                return f"(sliceFromNeg {paren(base)} {paren(lo[1])})", BYTES
            if lo is None:
                if hi[0] == "pos":
                    return f"(sliceTo {paren(base)} {paren(hi[1])})", BYTES
                if not self.is_pos_literal_or_const(sl.upper.operand):
                    raise Unsupported(f"{self.fs.qual}: data[:-k] with k not a positive constant")
                return f"(sliceToNeg {paren(base)} {paren(hi[1])})", BYTES
            if lo[0] == "pos" and hi[0] == "neg":
                if not self.is_pos_literal_or_const(sl.upper.operand):
                    raise Unsupported(f"{self.fs.qual}: data[a:-k] with k not a positive constant")
                return f"(sliceMid {paren(base)} {paren(lo[1])} {paren(hi[1])})", BYTES
            if lo[0] == "pos" and hi[0] == "pos":
                return f"(sliceFrom (sliceTo {paren(base)} {paren(hi[1])}) {paren(lo[1])})", BYTES
            raise Unsupported(f"{self.fs.qual}: slice {ast.unparse(node)[:60]}")
        # index
        if isinstance(sl, ast.UnaryOp):
            raise Unsupported(f"{self.fs.qual}: negative index")
        k, kt = self.ex(sl, env, L)
        if kt != NAT:
            raise Unsupported(f"{self.fs.qual}: index of type {kt}")
        tmp = self.tr.fresh("b")
        L.append(f"let {tmp} ← {self.lift(f'byteAt {paren(base)} {paren(k)}')}")
        return tmp, NAT

    def is_pos_literal_or_const(self, n):
        if isinstance(n, ast.Constant) and isinstance(n.value, int) and n.value > 0:
            return True
        if isinstance(n, ast.Name):
            v = getattr(self.tr.mod, n.id, None)
            return isinstance(v, int) and v > 0
        return False

    def listcomp(self, node, env, L):
        if len(node.generators) != 1 or node.generators[0].ifs or node.generators[0].is_async:
            raise Unsupported(f"{self.fs.qual}: comprehension {ast.unparse(node)[:60]}")
        g = node.generators[0]
        if isinstance(g.iter, ast.Call) and isinstance(g.iter.func, ast.Name) and g.iter.func.id == "zip" and len(g.iter.args) == 2 \
                and isinstance(g.target, ast.Tuple) and len(g.target.elts) == 2 and all(isinstance(e, ast.Name) for e in g.target.elts):
            x, xt = self.ex(g.iter.args[0], env, L)
            y, yt = self.ex(g.iter.args[1], env, L)
            if xt == BYTES and yt == BYTES:
                e2 = dict(env)
                a, b = g.target.elts[0].id, g.target.elts[1].id
                e2[a] = NAT
                e2[b] = NAT
                sub = []
                body, bty = self.ex(node.elt, e2, sub)
                if sub:
                    raise Unsupported(f"{self.fs.qual}: comprehension element that can raise")
                if bty != NAT:
                    raise Unsupported(f"{self.fs.qual}: comprehension element of type {bty}")
                return f"(zipWithL (fun {ident(a)} {ident(b)} => {body}) (ints {paren(x)}) (ints {paren(y)}))", ("list", NAT)
        raise Unsupported(f"{self.fs.qual}: comprehension {ast.unparse(node)[:60]}")

    # ---------- calls
    def call(self, node, env, L, stmt=False):
        tr = self.tr
        f = node.func
        src = ast.unparse(f)
        st = tr.spec.state
        if self.is_state_method and src in st.calls:
            return st.calls[src](self, node, env, L)
        if isinstance(f, ast.Name):
            n = f.id
            if n == "len" and len(node.args) == 1:
                a, at = self.ex(node.args[0], env, L)
                if at == BYTES or (isinstance(at, tuple) and at[0] in ("list", "dict")):
                    return f"{paren(a)}.length", NAT
                raise Unsupported(f"{self.fs.qual}: len of {at}")
            if n in ("bytes", "bytearray"):
                if not node.args:
                    return "([] : List UInt8)", BYTES
                if len(node.args) == 1:
                    a, at = self.ex(node.args[0], env, L)
                    if at == BYTES:
                        return a, BYTES
                    if at == ("list", NAT):
                        tmp = tr.fresh("b")
                        L.append(f"let {tmp} ← {self.lift('bytesOf ' + paren(a))}")
                        return tmp, BYTES
                    if isinstance(at, tuple) and at[0] == "tuple" and all(x == NAT for x in at[1]):
                        # bytes(prefix) for a tuple of Reserved values: handled through list conversion by the caller's type
                        raise Unsupported(f"{self.fs.qual}: bytes(tuple)")
                raise Unsupported(f"{self.fs.qual}: {ast.unparse(node)[:60]}")
            if n == "isinstance" and len(node.args) == 2 and isinstance(node.args[1], ast.Name) and node.args[1].id in tr.union_of:
                a, at = self.ex(node.args[0], env, L)
                u = tr.union_of[node.args[1].id]
                if at == ("obj", u):
                    return f"(decide ({u}.cls {paren(a)} = {u}Cls.{node.args[1].id}))", BOOL
                raise Unsupported(f"{self.fs.qual}: isinstance on {at}")
            # module-level function already translated
            key = (n, None)
            if key in tr.sigs:
                return self.call_translated(key, node, env, L, [])
            # dataclass constructor
            if n in tr.union_of or (n == "cls" and self.kind == "classmethod"):
                cname = self.owner if n == "cls" else n
                return self.construct(cname, node, env, L)
            raise Unsupported(f"{self.fs.qual}: call of {n}")
        if isinstance(f, ast.Attribute):
            m = f.attr
            # conversion to an int enum of the repository (t.NcpResetCode(x)): probed by reflection over every byte value;
            # a total conversion is the identity on the number
            if self.is_const_chain(f) and len(node.args) == 1 and not node.keywords:
                try:
                    obj = eval(src, vars(tr.mod))  # noqa: S307
                except Exception:
                    obj = None
                if isinstance(obj, type) and issubclass(obj, enum.Enum) and issubclass(obj, int):
                    for v in range(256):
                        try:
                            if int(obj(v)) != v:
                                raise Unsupported(f"{self.fs.qual}: {src}({v}) is not {v}")
                        except Unsupported:
                            raise
                        except Exception:
                            raise Unsupported(f"{self.fs.qual}: {src}({v}) raises")
                    a, at = self.ex(node.args[0], env, L)
                    if at != NAT:
                        raise Unsupported(f"{self.fs.qual}: {src} of {at}")
                    return a, NAT
            # binascii.crc_hqx(data, seed)
            if src == "binascii.crc_hqx" and len(node.args) == 2:
                a, at = self.ex(node.args[0], env, L)
                s, sty = self.ex(node.args[1], env, L)
                if at == BYTES and sty == NAT:
                    return f"(crcHqx {paren(a)} {paren(s)})", NAT
            if m == "to_bytes" and len(node.args) == 2 and isinstance(node.args[0], ast.Constant) and node.args[0].value == 2 \
                    and isinstance(node.args[1], ast.Constant) and node.args[1].value == "big" and not isinstance(f.value, ast.Name):
                a, at = self.ex(f.value, env, L)
                if at == NAT:
                    tmp = tr.fresh("b")
                    L.append(f"let {tmp} ← {self.lift('toBytes2Big ' + paren(a))}")
                    return tmp, BYTES
            # self.method(...) / cls.method(...) / Class.method(...)
            if isinstance(f.value, ast.Name):
                owner = None
                if f.value.id == "self":
                    owner = self.owner
                elif f.value.id == "cls" and self.kind == "classmethod":
                    owner = self.owner
                elif f.value.id in tr.union_of:
                    owner = f.value.id
                if owner is not None:
                    key = self.find_sig(owner, m)
                    if key is not None:
                        selfargs = []
                        if f.value.id == "self" and self.self_frame:
                            # a method of the same dataclass called on self
                            tgt = tr.sigs[key]
                            selfargs = [f"self_{ident(x)}" for x in self.self_fields]
                        return self.call_translated(key, node, env, L, selfargs)
            # method on a value
            base_node = f.value
            b, bt = self.ex(base_node, env, L)
            if isinstance(bt, tuple) and bt[0] == "cls" and m in ("from_bytes",):
                u = bt[1][:-3]
                a = [self.ex(x, env, L) for x in node.args]
                tmp = tr.fresh("f")
                L.append(f"let {tmp} ← {self.lift(f'{u}Cls.{m} {paren(b)} ' + ' '.join(paren(x[0]) for x in a))}")
                return tmp, ("obj", u)
            if isinstance(bt, tuple) and bt[0] == "obj" and m == "to_bytes" and not node.args:
                u = bt[1]
                tmp = tr.fresh("b")
                L.append(f"let {tmp} ← {self.lift(f'{u}.to_bytes {paren(b)}')}")
                return tmp, BYTES
            if bt == BYTES and m == "partition" and len(node.args) == 1:
                a = node.args[0]
                if isinstance(a, ast.Call) and isinstance(a.func, ast.Name) and a.func.id == "bytes" and len(a.args) == 1 \
                        and isinstance(a.args[0], ast.List) and len(a.args[0].elts) == 1:
                    c, ct = self.ex(a.args[0].elts[0], env, L)
                    if ct == NAT:
                        return f"(partition1 (UInt8.ofNat {paren(c)}) {paren(b)})", tup(BYTES, BOOL, BYTES)
                raise Unsupported(f"{self.fs.qual}: partition with {ast.unparse(a)[:40]}")
            vm = tr.spec.value_methods.get((self.ty_key(bt), m))
            if vm is not None:
                args = [self.ex(a, env, L) for a in node.args]
                return vm(self, b, bt, args, L)
            if isinstance(bt, tuple) and bt[0] == "dict":
                if m == "get" and len(node.args) == 1:
                    k, kt = self.ex(node.args[0], env, L)
                    return f"(dictGet {paren(b)} {paren(self.coerce(k, kt, NAT))})", opt(bt[2])
            raise Unsupported(f"{self.fs.qual}: method call {ast.unparse(node)[:70]} on {bt}")
        raise Unsupported(f"{self.fs.qual}: call {ast.unparse(node)[:60]}")

    @staticmethod
    def ty_key(t):
        if isinstance(t, tuple) and t[0] == "opt":
            return "opt:" + Fn.ty_key(t[1])
        if isinstance(t, tuple):
            return f"{t[0]}:{t[1]}" if len(t) > 1 and isinstance(t[1], str) else t[0]
        return t

    def find_sig(self, owner, m):
        tr = self.tr
        if (f"{owner}.{m}", owner) in tr.sigs:
            return (f"{owner}.{m}", owner)
        if (f"{owner}.{m}", None) in tr.sigs:
            return (f"{owner}.{m}", None)
        # inherited / aliased: look through the MRO and aliases
        cls = getattr(tr.mod, owner, None)
        if cls is not None:
            for base in cls.__mro__[1:]:
                q = f"{base.__name__}.{m}"
                if (q, owner) in tr.sigs:
                    return (q, owner)
                if (q, None) in tr.sigs:
                    return (q, None)
            for (q, b), _ in tr.sigs.items():
                if b == owner and q.endswith("." + m):
                    return (q, b)
        return None

    def call_translated(self, key, node, env, L, selfargs):
        tr = self.tr
        lname, params, ret, monad, ckind = tr.sigs[key]
        if ckind != 'method':
            selfargs = []
        pos = list(node.args)
        kws = {k.arg: k.value for k in node.keywords}
        args = []
        # defaults of the callee
        callee_node = tr.find_def(key[0]) or tr.find_def(tr.resolve_alias(key[0]) or "")
        defaults = {}
        if callee_node is not None:
            a = callee_node.args
            nd = len(a.defaults)
            for i, d in enumerate(a.defaults):
                defaults[a.args[len(a.args) - nd + i].arg] = d
            for x, d in zip(a.kwonlyargs, a.kw_defaults):
                if d is not None:
                    defaults[x.arg] = d
        for i, (pn, pt) in enumerate(params):
            if i < len(pos):
                t, ty = self.ex(pos[i], env, L)
            elif pn in kws:
                t, ty = self.ex(kws[pn], env, L)
            elif pn in defaults:
                t, ty = self.ex(defaults[pn], {}, L)
            else:
                raise Unsupported(f"{self.fs.qual}: missing argument {pn} in {ast.unparse(node)[:60]}")
            args.append(paren(self.coerce_arg(t, ty, pt)))
        callt = lname + "".join(" " + a for a in selfargs) + "".join(" " + a for a in args)
        tmp = tr.fresh("r")
        if monad == "E":
            L.append(f"let {tmp} ← {self.lift(callt)}")
        else:
            if self.monad != "M":
                raise Unsupported(f"{self.fs.qual}: pure function calling a method")
            L.append(f"let {tmp} ← {callt}")
        return (tmp if ret != UNIT else "()"), ret

    def coerce_arg(self, t, ty, want):
        if ty == want:
            return t
        if isinstance(ty, tuple) and ty[0] == "tuple" and want == ("list", NAT) and all(x == NAT for x in ty[1]):
            # a tuple of ints passed where a sequence of ints is expected (prefix=(Reserved.CANCEL,))
            inner = t.strip()
            if inner.startswith("(") and inner.endswith(")"):
                inner = inner[1:-1]
            return f"[{inner}]"
        if ty == tup() and want == ("list", NAT):
            return "[]"
        return self.coerce(t, ty, want)

    def construct(self, cname, node, env, L):
        tr = self.tr
        u = tr.union_of[cname]
        fs = [c for c in tr.union_fields[u] if c[0] == cname][0][1]
        kws = {k.arg: k.value for k in node.keywords}
        vals = []
        for i, fld in enumerate(fs):
            if i < len(node.args):
                t, ty = self.ex(node.args[i], env, L)
            elif fld in kws:
                t, ty = self.ex(kws[fld], env, L)
            else:
                raise Unsupported(f"{self.fs.qual}: constructor {cname} without {fld}")
            vals.append(paren(self.coerce(t, ty, tr.field_ty(fld))))
        return f"({u}.{cname}" + "".join(" " + v for v in vals) + ")", ("obj", u)


# --------------------------------------------------------------------------- module specifications


ASH_STATE_DECL = """/-- a frame number's ack future (`asyncio.Future`): heap cell -/
inductive FutState
  | pending
  | result                    -- set_result(True)
  | exc (e : ExcVal)          -- set_exception(e)
  | cancelled
deriving Repr, DecidableEq

def FutState.done : FutState → Bool
  | .pending => false
  | _ => true

/-- calls the protocol object makes on its environment, in program order -/
inductive Ev
  | write (bytes : List UInt8)       -- self._transport.write(data)
  | transportClose                   -- self._transport.close()
  | up (payload : List UInt8)        -- self._ezsp_protocol.data_received(payload)
  | reset (code : Nat)               -- self._ezsp_protocol.reset_received(code)
  | error (code : Option Nat)        -- self._ezsp_protocol.error_received(code)
  | connectionLost                   -- self._ezsp_protocol.connection_lost(exc)
  | ackTimeoutInit                   -- self._change_ack_timeout(T_RX_ACK_INIT)
deriving Repr, DecidableEq

/-- the fields of `AshProtocol` the translated methods read and write.  Futures live in a heap (`futs`, by
id) because Python shares them by reference between `_pending_data_frames` and the sending coroutine. -/
structure AshProtocol where
  /-- `_transport`: `none` = None, `some c` = a transport whose `is_closing()` answers `c` -/
  transport : Option Bool := some false
  buffer : List UInt8 := []
  discarding : Bool := false
  /-- `_pending_data_frames`: frame number ↦ future id, insertion ordered -/
  pending : List (Nat × Nat) := []
  futs : List FutState := []
  tx_seq : Nat := 0
  rx_seq : Nat := 0
  ncp_reset_code : Option Nat := none
  ncp_state : NcpState := .CONNECTED
  trace : List Ev := []
deriving Repr, DecidableEq

def emit (e : Ev) : PyM AshProtocol Unit := PyM.modify fun s => { s with trace := s.trace ++ [e] }

/-- `fut.done()` -/
def futDone (id : Nat) : PyM AshProtocol Bool := fun s =>
  match s.futs[id]? with
  | some f => (.ok f.done, s)
  | none => (.error (.unsupported "dangling future"), s)

/-- `fut.done()` on the result of `dict.get` (None has no such attribute) -/
def optFutDone : Option Nat → PyM AshProtocol Bool
  | some id => futDone id
  | none => PyM.throw (.raised "AttributeError")

def futSet (id : Nat) (v : FutState) : PyM AshProtocol Unit := fun s =>
  match s.futs[id]? with
  | some .pending => (.ok (), { s with futs := s.futs.set id v })
  | some _ => (.error (.raised "InvalidStateError"), s)
  | none => (.error (.unsupported "dangling future"), s)

/-- `self._transport.is_closing()` -/
def transportIsClosing : PyM AshProtocol Bool := fun s =>
  match s.transport with
  | some c => (.ok c, s)
  | none => (.error (.raised "AttributeError"), s)
"""


def _ash_state_spec():
    FUT = ("ref", "Fut")

    def call_write(fn, node, env, L):
        a, at = fn.ex(node.args[0], env, L)
        if at != BYTES:
            raise Unsupported("transport.write of " + str(at))
        L.append(f"emit (.write {paren(a)})")
        return "()", UNIT

    def call_close(fn, node, env, L):
        L.append("emit .transportClose")
        return "()", UNIT

    def call_is_closing(fn, node, env, L):
        tmp = fn.tr.fresh("c")
        L.append(f"let {tmp} ← transportIsClosing")
        return tmp, BOOL

    def up(evname, ty):
        def h(fn, node, env, L):
            a, at = fn.ex(node.args[0], env, L)
            a = fn.coerce(a, at, ty)
            L.append(f"emit (.{evname} {paren(a)})")
            return "()", UNIT
        return h

    def call_conn_lost(fn, node, env, L):
        L.append("emit .connectionLost")
        return "()", UNIT

    def call_change_ack_timeout(fn, node, env, L):
        if len(node.args) == 1 and isinstance(node.args[0], ast.Name) and node.args[0].id == "T_RX_ACK_INIT":
            L.append("emit .ackTimeoutInit")
            return "()", UNIT
        raise Unsupported("_change_ack_timeout with a computed value")

    st = StateSpec(
        pyclass="AshProtocol", lean="AshProtocol",
        fields={
            "_buffer": ("buffer", BYTES),
            "_discarding_until_next_flag": ("discarding", BOOL),
            "_pending_data_frames": ("pending", ("dict", NAT, FUT)),
            "_tx_seq": ("tx_seq", NAT),
            "_rx_seq": ("rx_seq", NAT),
            "_ncp_reset_code": ("ncp_reset_code", opt(NAT)),
            "_ncp_state": ("ncp_state", ("enum", "NcpState")),
            "_transport": ("transport", opt(BOOL)),
        },
        calls={
            "self._transport.write": call_write,
            "self._transport.close": call_close,
            "self._transport.is_closing": call_is_closing,
            "self._ezsp_protocol.data_received": up("up", BYTES),
            "self._ezsp_protocol.reset_received": up("reset", NAT),
            "self._ezsp_protocol.error_received": up("error", opt(NAT)),
            "self._ezsp_protocol.connection_lost": call_conn_lost,
            "self._change_ack_timeout": call_change_ack_timeout,
        },
    )
    return st


def _ash_exc():
    def simple(term):
        def h(fn, node, env, L):
            return term
        return h

    def ncp_failure(fn, node, env, L):
        kws = {k.arg: k.value for k in node.keywords}
        arg = kws.get("code") or (node.args[0] if node.args else None)
        if arg is None:
            return "(ExcVal.ncpFailure none)"
        if isinstance(arg, ast.Constant) and isinstance(arg.value, str):
            return "(ExcVal.ncpFailure none)"
        a, at = fn.ex(arg, env, L)
        if at == NAT:
            return f"(ExcVal.ncpFailure (some {paren(a)}))"
        if at == opt(NAT):
            return f"(ExcVal.ncpFailure {paren(a)})"
        raise Unsupported(f"NcpFailure({at})")

    return {"RuntimeError": simple("ExcVal.runtimeError"), "NotAcked": simple("ExcVal.notAcked"), "NcpFailure": ncp_failure}


def _ash_value_methods():
    def fut_done(fn, b, bt, args, L):
        tmp = fn.tr.fresh("d")
        L.append(f"let {tmp} ← futDone {paren(b)}")
        return tmp, BOOL

    def optfut_done(fn, b, bt, args, L):
        tmp = fn.tr.fresh("d")
        L.append(f"let {tmp} ← optFutDone {paren(b)}")
        return tmp, BOOL

    def fut_set_result(fn, b, bt, args, L):
        if len(args) != 1 or args[0][0] != "true":
            raise Unsupported("set_result of something other than True")
        L.append(f"futSet {paren(b)} .result")
        return "()", UNIT

    def fut_set_exception(fn, b, bt, args, L):
        if len(args) != 1 or args[0][1] != EXC:
            raise Unsupported("set_exception of a non-exception")
        L.append(f"futSet {paren(b)} (.exc {paren(args[0][0])})")
        return "()", UNIT

    return {
        ("ref:Fut", "done"): fut_done,
        ("opt:ref:Fut", "done"): optfut_done,
        ("ref:Fut", "set_result"): fut_set_result,
        ("ref:Fut", "set_exception"): fut_set_exception,
    }


def ash_spec() -> ModSpec:
    frames = ["DataFrame", "AckFrame", "NakFrame", "RstFrame", "RStackFrame", "ErrorFrame"]
    fns = [
        FnSpec("generate_random_sequence", params={"length": NAT}, ret=BYTES),
        FnSpec("AshFrame._unwrap", ret=tup(NAT, BYTES), lean_name="AshFrame.unwrap"),
        FnSpec("AshFrame.append_crc", lean_name="AshFrame.append_crc"),
        FnSpec("DataFrame._randomize", lean_name="DataFrame.randomize"),
    ]
    for c in frames:
        fns.append(FnSpec(f"{c}.from_bytes", bind_cls=c, ret=("obj", "Frame")))
        fns.append(FnSpec(f"{c}.to_bytes", bind_cls=c, ret=BYTES))
    F = ("obj", "Frame")
    fns += [
        FnSpec("dispatch:Frame:from_bytes"),
        FnSpec("dispatch:Frame:to_bytes"),
        FnSpec("parse_frame", ret=F),
        FnSpec("AshProtocol._stuff_bytes", lean_name="stuff_bytes"),
        FnSpec("AshProtocol._unstuff_bytes", lean_name="unstuff_bytes"),
        # ---- the receiver: synchronous methods of AshProtocol over the state structure
        FnSpec("AshProtocol._cancel_pending_data_frames", params={"exc": EXC}, ret=UNIT),
        FnSpec("AshProtocol._write_frame", params={"frame": F, "prefix": ("list", NAT), "suffix": ("list", NAT)}, ret=UNIT),
        FnSpec("AshProtocol._handle_ack", params={"frame": F}, ret=UNIT),
        FnSpec("AshProtocol.data_frame_received", params={"frame": F}, ret=UNIT),
        FnSpec("AshProtocol.rstack_frame_received", params={"frame": F}, ret=UNIT),
        FnSpec("AshProtocol.ack_frame_received", params={"frame": F}, ret=UNIT),
        FnSpec("AshProtocol.nak_frame_received", params={"frame": F}, ret=UNIT),
        FnSpec("AshProtocol.rst_frame_received", params={"frame": F}, ret=UNIT),
        FnSpec("AshProtocol._enter_failed_state", params={"reset_code": opt(NAT)}, ret=UNIT),
        FnSpec("AshProtocol.error_frame_received", params={"frame": F}, ret=UNIT),
        FnSpec("AshProtocol.frame_received", params={"frame": F}, ret=UNIT),
        FnSpec("AshProtocol.data_received", ret=UNIT, fuel="2 * ({s}.buffer.length + data_.length) + 2"),
        FnSpec("AshProtocol.send_reset", ret=UNIT),
        FnSpec("AshProtocol.close", ret=UNIT),
    ]
    return ModSpec(
        module="bellows.ash",
        ns="BV.Src.Ash",
        imports=["BV.Py.AshEnv"],
        opens=["BV.Py"],
        unions={"Frame": frames},
        fns=fns,
        state=_ash_state_spec(),
        exc_ctor=_ash_exc(),
        value_methods=_ash_value_methods(),
        enums=["NcpState"],
        state_decl=ASH_STATE_DECL,
    )


# --------------------------------------------------------------------------- bellows/uart.py (Gateway, synchronous part)

UART_STATE_DECL = """/-- an `asyncio.Future` of the gateway: heap cell -/
inductive GFut
  | pending
  | result                                -- set_result(True)
  | resultExc (e : Option ExcVal)         -- set_result(exc): the connection-done future carries the reason (or None)
  | exc (e : ExcVal)                      -- set_exception(e)
  | cancelled
deriving Repr, DecidableEq

def GFut.done : GFut → Bool
  | .pending => false
  | _ => true

/-- calls the gateway makes on its environment, in program order -/
inductive GEv
  | appFrame (data : List UInt8)          -- self._application.frame_received(data)
  | appEnterFailed (code : Nat)           -- self._application.enter_failed_state(code)
  | appConnectionLost (exc : Option ExcVal)  -- self._application.connection_lost(exc)
  | transportClose                        -- self._transport.close()
  | transportSendReset                    -- self._transport.send_reset()
deriving Repr, DecidableEq

/-- what reaches the gateway from below while one of its coroutines is suspended -/
inductive GIn
  | rstack (code : Nat)                   -- reset_received(code)
  | error (code : Nat)                    -- error_received(code)
  | lost (exc : Option ExcVal)            -- connection_lost(exc)
  | eof                                   -- eof_received()
  | data (d : List UInt8)                 -- data_received(d)
deriving Repr, DecidableEq

/-- how a wait that nothing from below ends is ended -/
inductive GEnd
  | deadline
  | cancelled
deriving Repr, DecidableEq

/-- one suspension: what arrives, grouped by loop iteration (the done-callbacks of a future run between iterations), then the end -/
structure GWait where
  rounds : List (List GIn) := []
  fin : GEnd := .deadline
deriving Repr, DecidableEq

/-- the fields of `Gateway`; futures live in a heap because waiters hold them by reference -/
structure Gateway where
  reset_future : Option Nat := none
  startup_reset_future : Option Nat := none
  connected_future : Option Nat := none
  connection_done_future : Option Nat := none
  /-- `_transport`: None or an object -/
  transport : Option Unit := some ()
  futs : List GFut := []
  trace : List GEv := []
  /-- futures that have `_reset_cleanup` attached as a done-callback and have not completed yet -/
  cleanups : List Nat := []
  /-- what happens at each await of the translated coroutines, in order (BV/Py/UartEnv.lean) -/
  script : List GWait := []
deriving Repr, DecidableEq

def gemit (e : GEv) : PyM Gateway Unit := PyM.modify fun s => { s with trace := s.trace ++ [e] }

/-- a call on `self._transport` (AttributeError when it is None) -/
def gtransport (e : GEv) : PyM Gateway Unit := fun s =>
  match s.transport with
  | some _ => (.ok (), { s with trace := s.trace ++ [e] })
  | none => (.error (.raised "AttributeError"), s)

/-- `fut.done()` where `fut` came out of an attribute that may hold None -/
def gfutDone : Option Nat → PyM Gateway Bool
  | some id => fun s =>
    match s.futs[id]? with
    | some f => (.ok f.done, s)
    | none => (.error (.unsupported "dangling future"), s)
  | none => PyM.throw (.raised "AttributeError")

/-- `fut.set_result(..)` / `fut.set_exception(..)`: InvalidStateError unless pending -/
def gfutSet : Option Nat → GFut → PyM Gateway Unit
  | some id, v => fun s =>
    match s.futs[id]? with
    | some .pending => (.ok (), { s with futs := s.futs.set id v })
    | some _ => (.error (.raised "InvalidStateError"), s)
    | none => (.error (.unsupported "dangling future"), s)
  | none, _ => PyM.throw (.raised "AttributeError")
"""


def uart_spec() -> ModSpec:
    FUT = ("ref", "GFut")

    def tcall(ev):
        def h(fn, node, env, L):
            if node.args or node.keywords:
                raise Unsupported("transport call with arguments")
            L.append(f"gtransport .{ev}")
            return "()", UNIT
        return h

    def app(evname, ty):
        def h(fn, node, env, L):
            if len(node.args) != 1 or node.keywords:
                raise Unsupported("application call shape")
            a, at = fn.ex(node.args[0], env, L)
            a = fn.coerce(a, at, ty)
            L.append(f"gemit (.{evname} {paren(a)})")
            return "()", UNIT
        return h

    st = StateSpec(
        pyclass="Gateway", lean="Gateway",
        fields={
            "_reset_future": ("reset_future", opt(FUT)),
            "_startup_reset_future": ("startup_reset_future", opt(FUT)),
            "_connected_future": ("connected_future", opt(FUT)),
            "_connection_done_future": ("connection_done_future", opt(FUT)),
            "_transport": ("transport", opt(("lean", "Unit"))),
        },
        calls={
            "self._transport.close": tcall("transportClose"),
            "self._transport.send_reset": tcall("transportSendReset"),
            "self._application.frame_received": app("appFrame", BYTES),
            "self._application.enter_failed_state": app("appEnterFailed", NAT),
            "self._application.connection_lost": app("appConnectionLost", opt(EXC)),
        },
    )

    def fut_done(fn, b, bt, args, L):
        tmp = fn.tr.fresh("d")
        L.append(f"let {tmp} ← gfutDone {paren(b)}")
        return tmp, BOOL

    def fut_set_result(fn, b, bt, args, L):
        if len(args) != 1:
            raise Unsupported("set_result arity")
        a, at = args[0]
        if a == "true" and at == BOOL:
            L.append(f"gfutSet {paren(b)} .result")
        elif at == opt(EXC):
            L.append(f"gfutSet {paren(b)} (.resultExc {paren(a)})")
        else:
            raise Unsupported(f"set_result of {at}")
        return "()", UNIT

    def fut_set_exception(fn, b, bt, args, L):
        if len(args) != 1 or args[0][1] != EXC:
            raise Unsupported("set_exception of a non-exception")
        L.append(f"gfutSet {paren(b)} (.exc {paren(args[0][0])})")
        return "()", UNIT

    def conn_reset(fn, node, env, L):
        return "ExcVal.connectionReset"

    fns = [
        FnSpec("Gateway.close", ret=UNIT),
        FnSpec("Gateway.connection_made", params={"transport": ("lean", "Unit")}, ret=UNIT),
        FnSpec("Gateway.data_received", params={"data": BYTES}, ret=UNIT),
        FnSpec("Gateway.reset_received", ret=UNIT),
        FnSpec("Gateway.error_received", ret=UNIT),
        FnSpec("Gateway._reset_cleanup", params={"future": FUT}, ret=UNIT),
        FnSpec("Gateway.connection_lost", params={"exc": opt(EXC)}, ret=UNIT),
        FnSpec("Gateway.eof_received", ret=UNIT),
    ]
    return ModSpec(
        module="bellows.uart",
        ns="BV.Src.Uart",
        imports=["BV.Py.AshEnv"],
        opens=["BV.Py"],
        unions={},
        fns=fns,
        state=st,
        exc_ctor={"ConnectionResetError": conn_reset},
        value_methods={
            ("opt:ref:GFut", "done"): fut_done,
            ("opt:ref:GFut", "set_result"): fut_set_result,
            ("opt:ref:GFut", "set_exception"): fut_set_exception,
        },
        enums=[],
        state_decl=UART_STATE_DECL,
    )


# --------------------------------------------------------------------------- bellows/multicast.py (coroutines over the command layer)

MCAST_STATE_DECL = """/-- `t.EmberMulticastTableEntry` (three integer fields) -/
structure McEntry where
  multicastId : Nat := 0
  endpoint : Nat := 0
  networkIndex : Nat := 0
deriving Repr, DecidableEq

abbrev StatusV := BV.Status.St

/-- what an awaited EZSP command does: it returns the values of its response, or it raises -/
inductive Resp
  | cfg (status : StatusV) (value : Nat)          -- getConfigurationValue -> (status, value)
  | entry (status : StatusV) (e : McEntry)        -- getMulticastTableEntry -> (status, entry)
  | one (status : StatusV)                        -- setMulticastTableEntry -> (status,)
  | raises (cls : String)                         -- the command raises (asyncio.TimeoutError, EzspError, ...)
deriving Repr, DecidableEq

/-- commands issued, in program order, with their arguments -/
inductive MEv
  | getConfig (id : Nat)
  | getEntry (index : Nat)
  | setEntry (index : Nat) (e : McEntry)
deriving Repr, DecidableEq

/-- the fields of `Multicast`, the scripted command layer (`script`: the outcome of each awaited command, in order) and the
element each `set.pop()` returns (`choices`; Python's choice is arbitrary) -/
structure Multicast where
  multicast : List (Nat × (McEntry × Nat)) := []     -- `_multicast`: group id -> (entry, table index), insertion ordered
  available : List Nat := []                          -- `_available` (a set)
  script : List Resp := []
  choices : List Nat := []
  trace : List MEv := []
deriving Repr, DecidableEq

/-- `await self._ezsp.<command>(...)`: record the call, take the next scripted outcome -/
def mcall (e : MEv) : PyM Multicast Resp := fun s =>
  match s.script with
  | [] => (.error (.unsupported "script exhausted"), { s with trace := s.trace ++ [e] })
  | .raises c :: rest => (.error (.raised c), { s with trace := s.trace ++ [e], script := rest })
  | r :: rest => (.ok r, { s with trace := s.trace ++ [e], script := rest })

def Resp.asCfg : Resp → Except PyErr (StatusV × Nat)
  | .cfg st v => .ok (st, v)
  | _ => .error (.unsupported "response of another command")
def Resp.asEntry : Resp → Except PyErr (StatusV × McEntry)
  | .entry st e => .ok (st, e)
  | _ => .error (.unsupported "response of another command")
def Resp.asSt : Resp → Except PyErr (List StatusV)
  | .one x => .ok [x]
  | _ => .error (.unsupported "response of another command")

/-- `self._available.pop()`: KeyError on an empty set, otherwise some element (the next scripted choice, which must be one) -/
def availPop : PyM Multicast Nat := fun s =>
  if s.available.isEmpty then (.error (.raised "KeyError"), s)
  else match s.choices with
    | c :: rest => if s.available.contains c then (.ok c, { s with available := s.available.erase c, choices := rest })
                   else (.error (.unsupported "not an element of the set"), s)
    | [] => (.error (.unsupported "choices exhausted"), s)

/-- `self._available.add(i)` -/
def availAdd (i : Nat) : PyM Multicast Unit := PyM.modify fun s =>
  { s with available := if s.available.contains i then s.available else s.available ++ [i] }

/-- `t.uint8_t(x)` / `t.EmberMulticastId(x)`: ValueError outside the type's range -/
def checkU (bytes x : Nat) : Except PyErr Nat := if x < 256 ^ bytes then .ok x else .error (.raised "ValueError")

/-- `t.sl_Status.from_ember_status(status) == t.sl_Status.OK` (C18's model of the conversion) -/
def statusIsOk (st : StatusV) : Bool := BV.Status.conv st == BV.Gen.Status.slOK
"""


def multicast_spec() -> ModSpec:
    ENTRY = ("struct", "McEntry")
    STATUS = ("lean", "StatusV")
    ENTRY_FIELDS = {"endpoint": NAT, "multicastId": NAT, "networkIndex": NAT}

    def ezsp_call(name, ev_fmt, unpack, rty):
        def h(fn, node, env, L):
            if not getattr(fn, "awaiting", False):
                raise Unsupported(f"{name} called without await")
            if node.keywords:
                raise Unsupported(f"{name} with keyword arguments")
            args = [fn.ex(a, env, L) for a in node.args]
            ev = ev_fmt(fn, args)
            r = fn.tr.fresh("resp")
            L.append(f"let {r} ← mcall ({ev})")
            v = fn.tr.fresh("v")
            L.append(f"let {v} ← PyM.lift (Resp.{unpack} {r})")
            return v, rty
        return h

    def ev_get_config(fn, args):
        if len(args) != 1 or args[0][1] != NAT:
            raise Unsupported("getConfigurationValue arguments")
        return f".getConfig {paren(args[0][0])}"

    def ev_get_entry(fn, args):
        if len(args) != 1 or args[0][1] not in (NAT, INT):
            raise Unsupported("getMulticastTableEntry arguments")
        a = args[0][0] if args[0][1] == NAT else f"({args[0][0]}).toNat"
        return f".getEntry {paren(a)}"

    def ev_set_entry(fn, args):
        if len(args) != 2 or args[0][1] != NAT or args[1][1] != ENTRY:
            raise Unsupported("setMulticastTableEntry arguments")
        return f".setEntry {paren(args[0][0])} {paren(args[1][0])}"

    def avail_pop(fn, node, env, L):
        if node.args or node.keywords:
            raise Unsupported("set.pop with arguments")
        tmp = fn.tr.fresh("x")
        L.append(f"let {tmp} ← availPop")
        return tmp, NAT

    def avail_add(fn, node, env, L):
        a, at = fn.ex(node.args[0], env, L)
        if at == INT:
            a, at = f"({a}).toNat", NAT
        if at != NAT:
            raise Unsupported("set.add of " + str(at))
        L.append(f"availAdd {paren(a)}")
        return "()", UNIT

    def mc_pop(fn, node, env, L):
        if len(node.args) != 1:
            raise Unsupported("dict.pop arity")
        k, kt = fn.ex(node.args[0], env, L)
        s_ = fn.tr.fresh("s")
        r_ = fn.tr.fresh("p")
        L.append(f"let {s_} ← PyM.get")
        L.append(f"let {r_} ← PyM.lift (dictPop {s_}.multicast {paren(fn.coerce(k, kt, NAT))})")
        L.append(f"PyM.modify fun s => {{ s with multicast := {r_}.2 }}")
        return f"{r_}.1", tup(ENTRY, NAT)

    st = StateSpec(
        pyclass="Multicast", lean="Multicast",
        fields={
            "_multicast": ("multicast", ("dict", NAT, tup(ENTRY, NAT))),
            "_available": ("available", ("set", NAT)),
        },
        calls={
            "self._ezsp.getConfigurationValue": ezsp_call("getConfigurationValue", ev_get_config, "asCfg", tup(STATUS, NAT)),
            "self._ezsp.getMulticastTableEntry": ezsp_call("getMulticastTableEntry", ev_get_entry, "asEntry", tup(STATUS, ENTRY)),
            "self._ezsp.setMulticastTableEntry": ezsp_call("setMulticastTableEntry", ev_set_entry, "asSt", ("list", STATUS)),
            "self._available.pop": avail_pop,
            "self._available.add": avail_add,
            "self._multicast.pop": mc_pop,
        },
    )

    def ext(fn, node, env, L):
        if not isinstance(node, (ast.Attribute, ast.Call)):
            return None
        src = ast.unparse(node)
        if isinstance(node, ast.Attribute):
            if src == "t.sl_Status.OK":
                return "(BV.Status.St.sl BV.Gen.Status.slOK)", STATUS
            if src == "t.sl_Status.INVALID_INDEX":
                import bellows.types as t

                return f"(BV.Status.St.sl {int(t.sl_Status.INVALID_INDEX)})", STATUS
            if src == "t.EzspConfigId.CONFIG_MULTICAST_TABLE_SIZE":
                import bellows.types as t

                return str(int(t.EzspConfigId.CONFIG_MULTICAST_TABLE_SIZE)), NAT
            return None
        f = ast.unparse(node.func)
        if f == "t.sl_Status.from_ember_status" and len(node.args) == 1:
            a, at = fn.ex(node.args[0], env, L)
            if at != STATUS:
                raise Unsupported(f"from_ember_status of {at}")
            # the conversion itself is C18's model; only its comparison with OK is used here
            return f"(BV.Status.St.sl (BV.Status.conv {paren(a)}))", STATUS
        if f in ("t.uint8_t", "t.EmberMulticastId") and len(node.args) == 1:
            import bellows.types as t

            width = {"t.uint8_t": 1, "t.EmberMulticastId": t.EmberMulticastId._bits // 8}[f]
            a, at = fn.ex(node.args[0], env, L)
            if at != NAT:
                raise Unsupported(f"{f} of {at}")
            tmp = fn.tr.fresh("n")
            L.append(f"let {tmp} ← {fn.lift(f'checkU {width} {paren(a)}')}")
            return tmp, NAT
        if f == "t.EmberMulticastTableEntry" and not node.args and not node.keywords:
            return "({} : McEntry)", ENTRY
        return None

    fns = [
        FnSpec("Multicast._initialize", ret=UNIT, allow_async=True),
        FnSpec("Multicast.subscribe", params={"group_id": NAT}, ret=STATUS, allow_async=True),
        FnSpec("Multicast.unsubscribe", params={"group_id": NAT}, ret=STATUS, allow_async=True),
    ]
    return ModSpec(
        module="bellows.multicast",
        ns="BV.Src.Mcast",
        imports=["BV.Py.Prelude", "BV.Model.Status"],
        opens=["BV.Py"],
        unions={},
        fns=fns,
        state=st,
        ext_expr=ext,
        structs={"McEntry": ENTRY_FIELDS},
        # unsubscribe sets `entry.endpoint = 0` on the object stored in `_multicast[group_id]`; the stored object's fields are never
        # read again (only its index is, and a later unsubscribe overwrites the endpoint with 0 anyway), so the sharing is not observable
        alias_ok={"Multicast.unsubscribe": ["entry"]},
        state_decl=MCAST_STATE_DECL,
    )


# --------------------------------------------------------------------------- bellows/zigbee/application.py: _watchdog_feed

WD_STATE_DECL = """/-- what an awaited call of the feed does -/
inductive WResp
  | ok                                   -- nop / read_counters / read_and_clear_counters answered
  | buffers (v : Option Nat)             -- _get_free_buffers -> the count, or None
  | raises (cls : String)                -- the call raises
deriving Repr, DecidableEq

/-- calls made, in program order -/
inductive WEv
  | nop | readCounters | readAndClearCounters | getFreeBuffers
  | countersUpdate                       -- the loop that folds the answer into zigpy's counters
  | countersReset
  | buffersSet (v : Option Nat)
  | watchdogCounterIncrement
deriving Repr, DecidableEq

structure WdApp where
  version : Nat := 8                     -- self._ezsp.ezsp_version
  feed_counter : Nat := 0                -- _watchdog_feed_counter
  failures : Nat := 0                    -- _watchdog_failures
  script : List WResp := []
  trace : List WEv := []
deriving Repr, DecidableEq

def wemit (e : WEv) : PyM WdApp Unit := PyM.modify fun s => { s with trace := s.trace ++ [e] }

def wcall (e : WEv) : PyM WdApp WResp := fun s =>
  match s.script with
  | [] => (.error (.unsupported "script exhausted"), { s with trace := s.trace ++ [e] })
  | .raises c :: rest => (.error (.raised c), { s with trace := s.trace ++ [e], script := rest })
  | r :: rest => (.ok r, { s with trace := s.trace ++ [e], script := rest })

def WResp.asUnit : WResp → Except PyErr Unit
  | .ok => .ok ()
  | _ => .error (.unsupported "response of another call")
def WResp.asBuffers : WResp → Except PyErr (Option Nat)
  | .buffers v => .ok v
  | _ => .error (.unsupported "response of another call")
"""

# statements of _watchdog_feed that only touch zigpy's counter objects: pinned by their text (a change makes the translation fail,
# which is reported), each stands for one recorded event; zigpy's counters are modelled, not verified
WD_PINNED = {
    "for cnt_type, value in current_counters.items():\n    counters[cnt_type.name[8:]].update(value)": "wemit .countersUpdate",
    "counters.reset()": "wemit .countersReset",
    "cnt = counters[COUNTER_EZSP_BUFFERS]": None,
    "cnt._raw_value = free_buffers": "wemit (.buffersSet free_buffers)",
    "cnt._last_reset_value = 0": None,
    "self.state.counters[COUNTERS_CTRL][COUNTER_WATCHDOG].increment()": "wemit .watchdogCounterIncrement",
    "counters = self.state.counters[COUNTERS_EZSP]": None,
}


def watchdog_spec() -> ModSpec:
    OPAQUE = ("lean", "Unit")

    def acall(ev, unpack, rty):
        def h(fn, node, env, L):
            if not getattr(fn, "awaiting", False):
                raise Unsupported("call without await")
            if node.args or node.keywords:
                raise Unsupported("keep-alive call with arguments")
            r = fn.tr.fresh("resp")
            L.append(f"let {r} ← wcall .{ev}")
            v = fn.tr.fresh("v")
            L.append(f"let {v} ← PyM.lift (WResp.{unpack} {r})")
            return v, rty
        return h

    st = StateSpec(
        pyclass="ControllerApplication", lean="WdApp",
        fields={
            "_watchdog_feed_counter": ("feed_counter", NAT),
            "_watchdog_failures": ("failures", NAT),
        },
        attrs={"self._ezsp.ezsp_version": ("{s}.version", NAT)},
        calls={
            "self._ezsp.nop": acall("nop", "asUnit", UNIT),
            "self._ezsp.read_counters": acall("readCounters", "asUnit", OPAQUE),
            "self._ezsp.read_and_clear_counters": acall("readAndClearCounters", "asUnit", OPAQUE),
            "self._get_free_buffers": acall("getFreeBuffers", "asBuffers", opt(NAT)),
        },
    )

    def stmt_hook(fn, s, env, L):
        txt = ast.unparse(s)
        if txt in WD_PINNED:
            ev = WD_PINNED[txt]
            if ev:
                L.append(ev)
            return True
        return False

    return ModSpec(
        module="bellows.zigbee.application",
        ns="BV.Src.Wd",
        imports=["BV.Py.Prelude"],
        opens=["BV.Py"],
        unions={},
        fns=[FnSpec("ControllerApplication._watchdog_feed", ret=UNIT, allow_async=True, lean_name="watchdog_feed")],
        state=st,
        stmt_hook=stmt_hook,
        state_decl=WD_STATE_DECL,
    )


# --------------------------------------------------------------------------- bellows/ezsp/v4, v5, v8: frame headers

HDR_STATE_DECL = """/-- the fields of a protocol handler the header code touches: the sequence counter and the command table (name -> frame ID) -/
structure Handler where
  seq : Nat := 0
  cmds : List (String × Nat) := []
deriving Repr, DecidableEq

/-- `self.COMMANDS[name]`: (frame ID, tx schema, rx schema); KeyError for an unknown name -/
def cmdLookup (name : String) : PyM Handler (Nat × Unit × Unit) := fun s =>
  match s.cmds.lookup name with
  | some i => (.ok (i, (), ()), s)
  | none => (.error (.raised "KeyError"), s)

/-- `t.uint16_t(x).serialize()`: two bytes, little endian; ValueError beyond 16 bits -/
def u16ser (x : Nat) : Except PyErr (List UInt8) :=
  if x < 65536 then .ok [UInt8.ofNat (x % 256), UInt8.ofNat (x / 256)] else .error (.raised "ValueError")

/-- `t.uint16_t.deserialize(data)`: (value, rest); ValueError on fewer than two bytes -/
def u16de : List UInt8 → Except PyErr (Nat × List UInt8)
  | lo :: hi :: rest => .ok (lo.toNat + 256 * hi.toNat, rest)
  | _ => .error (.raised "ValueError")
"""


def _hdr_spec(module, cls, ns):
    def ext(fn, node, env, L):
        src = ast.unparse(node)
        if isinstance(node, ast.Subscript) and ast.unparse(node.value) == "self.COMMANDS":
            k, kt = fn.ex(node.slice, env, L)
            if kt != STR:
                raise Unsupported("COMMANDS[...] with a key that is not a name")
            tmp = fn.tr.fresh("c")
            L.append(f"let {tmp} ← cmdLookup {paren(k)}")
            return tmp, tup(NAT, ("lean", "Unit"), ("lean", "Unit"))
        if isinstance(node, ast.Call):
            f = node.func
            if isinstance(f, ast.Attribute) and f.attr == "serialize" and not node.args and isinstance(f.value, ast.Call) \
                    and ast.unparse(f.value.func) == "t.uint16_t" and len(f.value.args) == 1:
                a, at = fn.ex(f.value.args[0], env, L)
                if at != NAT:
                    raise Unsupported("uint16_t of " + str(at))
                tmp = fn.tr.fresh("b")
                L.append(f"let {tmp} ← {fn.lift('u16ser ' + paren(a))}")
                return tmp, BYTES
            if ast.unparse(f) == "t.uint16_t.deserialize" and len(node.args) == 1:
                a, at = fn.ex(node.args[0], env, L)
                if at != BYTES:
                    raise Unsupported("uint16_t.deserialize of " + str(at))
                tmp = fn.tr.fresh("p")
                L.append(f"let {tmp} ← {fn.lift('u16de ' + paren(a))}")
                return tmp, tup(NAT, BYTES)
        return None

    st = StateSpec(pyclass=cls, lean="Handler", fields={"_seq": ("seq", NAT)})
    return ModSpec(
        module=module, ns=ns, imports=["BV.Py.HdrEnv"], opens=["BV.Py"], unions={},
        fns=[
            FnSpec(f"{cls}._ezsp_frame_tx", params={"name": STR}, ret=BYTES, lean_name="frame_tx"),
            FnSpec(f"{cls}._ezsp_frame_rx", params={"data": BYTES}, ret=tup(NAT, NAT, BYTES), lean_name="frame_rx"),
        ],
        state=st, ext_expr=ext,
    )


def hdr_v4_spec():
    return _hdr_spec("bellows.ezsp.v4", "EZSPv4", "BV.Src.HdrV4")


def hdr_v5_spec():
    return _hdr_spec("bellows.ezsp.v5", "EZSPv5", "BV.Src.HdrV5")


def hdr_v8_spec():
    return _hdr_spec("bellows.ezsp.v8", "EZSPv8", "BV.Src.HdrV8")


# --------------------------------------------------------------------------- bellows/ezsp/protocol.py: ProtocolHandler.__call__

def protocol_spec() -> ModSpec:
    VALS = ("lean", "Vals")
    SCHEMA = ("lean", "Schema")
    FUT = ("ref", "PFut")

    def frame_rx(fn, node, env, L):
        a, at = fn.ex(node.args[0], env, L)
        if at != BYTES:
            raise Unsupported("_ezsp_frame_rx of " + str(at))
        tmp = fn.tr.fresh("h")
        L.append(f"let {tmp} ← frameRx {paren(a)}")
        return tmp, tup(NAT, NAT, BYTES)

    def awaiting_pop(fn, node, env, L):
        if len(node.args) != 1:
            raise Unsupported("_awaiting.pop arity")
        k, kt = fn.ex(node.args[0], env, L)
        tmp = fn.tr.fresh("p")
        L.append(f"let {tmp} ← awaitingPop {paren(fn.coerce(k, kt, NAT))}")
        return tmp, tup(NAT, ("lean", "Unit"), FUT)

    def handle_callback(fn, node, env, L):
        if len(node.args) != 2:
            raise Unsupported("_handle_callback arity")
        a, at = fn.ex(node.args[0], env, L)
        b, bt = fn.ex(node.args[1], env, L)
        if at != STR or bt != VALS:
            raise Unsupported(f"_handle_callback({at}, {bt})")
        L.append(f"pemit (.callback {paren(a)} {paren(b)})")
        return "()", UNIT

    st = StateSpec(
        pyclass="ProtocolHandler", lean="Proto",
        fields={"_awaiting": ("awaiting", ("dict", NAT, tup(NAT, FUT)))},
        calls={
            "self._ezsp_frame_rx": frame_rx,
            "self._awaiting.pop": awaiting_pop,
            "self._handle_callback": handle_callback,
        },
    )

    def ext(fn, node, env, L):
        src = ast.unparse(node)
        if isinstance(node, ast.Subscript):
            if ast.unparse(node.value) == "self.COMMANDS_BY_ID":
                k, kt = fn.ex(node.slice, env, L)
                if kt != NAT:
                    raise Unsupported("COMMANDS_BY_ID[...] with a key of type " + str(kt))
                tmp = fn.tr.fresh("c")
                L.append(f"let {tmp} ← cmdById {paren(k)}")
                return tmp, tup(STR, ("lean", "Unit"), SCHEMA)
            if src == "self.COMMANDS_BY_ID.get(expected_id, [expected_id])[0]":
                return '""', STR      # (logging argument: a lookup with a default, then the first element - cannot raise)
            return None
        if isinstance(node, ast.Call):
            f = ast.unparse(node.func)
            if f == "binascii.hexlify" and len(node.args) == 1 and isinstance(node.args[0], ast.Name) and env.get(node.args[0].id) == BYTES:
                return '""', STR
            if f == "isinstance" and len(node.args) == 2 and ast.unparse(node.args[1]) == "dict":
                a, at = fn.ex(node.args[0], env, L)
                if at != SCHEMA:
                    raise Unsupported("isinstance(.., dict) of " + str(at))
                return f"(schemaIsDict {paren(a)})", BOOL
            if f == "t.deserialize_dict" and len(node.args) == 2:
                a, at = fn.ex(node.args[0], env, L)
                b, bt = fn.ex(node.args[1], env, L)
                if at != BYTES or bt != SCHEMA:
                    raise Unsupported("deserialize_dict arguments")
                tmp = fn.tr.fresh("d")
                L.append(f"let {tmp} ← {fn.lift(f'deSchema {paren(a)} {paren(b)}')}")
                return tmp, tup(VALS, BYTES)
            if isinstance(node.func, ast.Attribute) and node.func.attr == "deserialize" and len(node.args) == 1 \
                    and isinstance(node.func.value, ast.Name) and env.get(node.func.value.id) == SCHEMA:
                a, at = fn.ex(node.args[0], env, L)
                if at != BYTES:
                    raise Unsupported("deserialize of " + str(at))
                tmp = fn.tr.fresh("d")
                L.append(f"let {tmp} ← {fn.lift(f'deSchema {paren(a)} {ident(node.func.value.id)}')}")
                return tmp, tup(VALS, BYTES)
            if src == "list(result.values())" and env.get("result") == VALS:
                return "result", VALS     # the dict built by deserialize_dict keeps the schema's order; its values are the decoded list
        return None

    def invalid_command_error(fn, node, env, L):
        # the message is an f-string; what it evaluates can raise: `result[0]` (IndexError on an empty answer); `.name` is taken of
        # an enum value (the invalid-command answer's only field is an EzspStatus)
        for a in node.args:
            if not isinstance(a, ast.JoinedStr):
                raise Unsupported("InvalidCommandError argument")
            for v in a.values:
                if isinstance(v, ast.FormattedValue):
                    e = v.value
                    if isinstance(e, ast.Name):
                        continue
                    if ast.unparse(e) == "result[0].name" and env.get("result") == VALS:
                        tmp = fn.tr.fresh("x")
                        L.append(f"let {tmp} ← {fn.lift('valsHead result')}")
                        continue
                    raise Unsupported("InvalidCommandError message part " + ast.unparse(e)[:40])
        return "PFut.invalidCommand"

    def fut_set_exception(fn, b, bt, args, L):
        if len(args) != 1 or args[0][1] != EXC:
            raise Unsupported("set_exception of a non-exception")
        L.append(f"pfutSet {paren(b)} {args[0][0]}")
        return "()", UNIT

    def fut_set_result(fn, b, bt, args, L):
        if len(args) != 1 or args[0][1] != VALS:
            raise Unsupported("set_result of " + str(args[0][1] if args else None))
        L.append(f"pfutSet {paren(b)} (.result {paren(args[0][0])})")
        return "()", UNIT

    return ModSpec(
        module="bellows.ezsp.protocol",
        ns="BV.Src.Proto",
        imports=["BV.Py.ProtoEnv"],
        opens=["BV.Py"],
        unions={},
        fns=[FnSpec("ProtocolHandler.__call__", params={"data": BYTES}, ret=UNIT, lean_name="handler_call")],
        state=st,
        ext_expr=ext,
        exc_ctor={"InvalidCommandError": invalid_command_error},
        value_methods={("ref:PFut", "set_exception"): fut_set_exception, ("ref:PFut", "set_result"): fut_set_result},
    )


# statements of ProtocolHandler.command that only prepare logging (was the semaphore taken when the call started, and since when):
# pinned by their text, translated to nothing
CMD_PINNED = {
    "delayed = False",
    "send_time = None",
    "if self._send_semaphore.locked():\n    delayed = True\n    send_time = time.monotonic()\n    LOGGER.debug('Send semaphore is locked, delaying before sending %s(%r, %r)', name, args, kwargs)",
    "if delayed:\n    LOGGER.debug('Sending command  %s: %s %s after %0.2fs delay', name, args, kwargs, time.monotonic() - send_time)\nelse:\n    LOGGER.debug('Sending command  %s: %s %s', name, args, kwargs)",
}


def command_spec() -> ModSpec:
    """ProtocolHandler.command / _ezsp_frame / _get_command_priority over the state of ProtocolHandler.__call__ (BV/Py/CmdEnv.lean)"""
    VALS = ("lean", "Vals")
    KWVALS = ("lean", "KwVals")
    SCHEMA = ("lean", "Schema")
    FUT = ("ref", "PFut")

    def frame_tx(fn, node, env, L):
        a, at = fn.ex(node.args[0], env, L)
        if at != STR or len(node.args) != 1:
            raise Unsupported("_ezsp_frame_tx arguments")
        tmp = fn.tr.fresh("h")
        L.append(f"let {tmp} ← frameTx {paren(a)}")
        return tmp, BYTES

    def send_data(fn, node, env, L):
        if not fn.awaiting or len(node.args) != 1 or node.keywords:
            raise Unsupported("send_data not awaited / arguments")
        a, at = fn.ex(node.args[0], env, L)
        if at != BYTES:
            raise Unsupported("send_data of " + str(at))
        L.append(f"gwSend {paren(a)}")
        return "()", UNIT

    st = StateSpec(
        pyclass="ProtocolHandler", lean="Proto",
        fields={"_seq": ("seq", NAT)},
        calls={"self._ezsp_frame_tx": frame_tx, "self._gw.send_data": send_data},
    )

    def whole_args(node, names=("args", "kwargs")):
        return (len(node.args) >= 1 and isinstance(node.args[-1], ast.Starred) and isinstance(node.args[-1].value, ast.Name)
                and node.args[-1].value.id == names[0] and len(node.keywords) == 1 and node.keywords[0].arg is None
                and isinstance(node.keywords[0].value, ast.Name) and node.keywords[0].value.id == names[1])

    def ext(fn, node, env, L):
        src = ast.unparse(node)
        if isinstance(node, ast.Subscript):
            if ast.unparse(node.value) == "self.COMMANDS":
                k, kt = fn.ex(node.slice, env, L)
                if kt != STR:
                    raise Unsupported("COMMANDS[...] with a key of type " + str(kt))
                tmp = fn.tr.fresh("c")
                L.append(f"let {tmp} ← cmdByName {paren(k)}")
                return tmp, tup(NAT, SCHEMA, SCHEMA)
            if isinstance(node.value, ast.Call) and ast.unparse(node.value.func) == "self._awaiting.get" and ast.unparse(node.slice) == "2" \
                    and len(node.value.args) == 2 and ast.unparse(node.value.args[1]) == "(None, None, None)":
                # the third component of the entry under the key, None (the default's third component) without an entry
                k, kt = fn.ex(node.value.args[0], env, L)
                if kt != NAT:
                    raise Unsupported("_awaiting.get key")
                tmp = fn.tr.fresh("f")
                L.append(f"let {tmp} ← awaitingFutAt {paren(k)}")
                return tmp, opt(FUT)
            return None
        if isinstance(node, ast.Call):
            f = ast.unparse(node.func)
            if f == "isinstance" and len(node.args) == 2 and ast.unparse(node.args[1]) == "dict":
                a, at = fn.ex(node.args[0], env, L)
                if at != SCHEMA:
                    raise Unsupported("isinstance(.., dict) of " + str(at))
                return f"(schemaIsDict {paren(a)})", BOOL
            if f == "t.serialize_dict" and len(node.args) == 3 and not node.keywords:
                xs = [fn.ex(a_, env, L) for a_ in node.args]
                if [x[1] for x in xs] != [VALS, KWVALS, SCHEMA]:
                    raise Unsupported("serialize_dict arguments")
                tmp = fn.tr.fresh("d")
                L.append(f"let {tmp} ← {fn.lift('serDict ' + ' '.join(paren(x[0]) for x in xs))}")
                return tmp, BYTES
            if isinstance(node.func, ast.Attribute) and node.func.attr == "serialize" and not node.args and isinstance(node.func.value, ast.Call) \
                    and isinstance(node.func.value.func, ast.Name) and env.get(node.func.value.func.id) == SCHEMA:
                inner = node.func.value
                if not (len(inner.args) == 1 and whole_args(inner)) or env.get("args") != VALS or env.get("kwargs") != KWVALS:
                    raise Unsupported("struct schema construction " + src[:60])
                tmp = fn.tr.fresh("d")
                L.append(f"let {tmp} ← {fn.lift(f'serStruct args kwargs {ident(inner.func.id)}')}")
                return tmp, BYTES
            if f == "self._ezsp_frame":
                if not (len(node.args) == 2 and whole_args(node)) or env.get("args") != VALS or env.get("kwargs") != KWVALS:
                    raise Unsupported("_ezsp_frame call shape " + src[:60])
                a, at = fn.ex(node.args[0], env, L)
                if at != STR:
                    raise Unsupported("_ezsp_frame name")
                tmp = fn.tr.fresh("b")
                L.append(f"let {tmp} ← ezsp_frame {paren(a)} args kwargs")
                return tmp, BYTES
            if src == "asyncio.get_running_loop().create_future()":
                tmp = fn.tr.fresh("f")
                L.append(f"let {tmp} ← newFut")
                return tmp, FUT
            if f == "__await_timeout__":
                a, at = fn.ex(node.args[0], env, L)
                b, bt = fn.ex(node.args[1], env, L)
                if at != FUT or bt != NAT:
                    raise Unsupported(f"bounded wait for {at} with {bt}")
                tmp = fn.tr.fresh("v")
                L.append(f"let {tmp} ← awaitFuture {paren(a)} {paren(b)}")
                return tmp, VALS
        return None

    def stmt_hook(fn, s, env, L):
        if ast.unparse(s) in CMD_PINNED:
            return True
        if isinstance(s, ast.Assign) and len(s.targets) == 1 and isinstance(s.targets[0], ast.Subscript) \
                and ast.unparse(s.targets[0].value) == "self._awaiting":
            if not (isinstance(s.value, ast.Tuple) and len(s.value.elts) == 3):
                raise Unsupported("_awaiting[...] = " + ast.unparse(s.value)[:40])
            k, kt = fn.ex(s.targets[0].slice, env, L)
            xs = [fn.ex(e, env, L) for e in s.value.elts]
            if kt != NAT or [x[1] for x in xs] != [NAT, SCHEMA, FUT]:
                raise Unsupported("_awaiting entry of types " + str([x[1] for x in xs]))
            L.append(f"awaitingSet {paren(k)} {paren(xs[0][0])} {paren(xs[2][0])}")
            return True
        if isinstance(s, ast.Delete) and len(s.targets) == 1 and isinstance(s.targets[0], ast.Subscript) \
                and ast.unparse(s.targets[0].value) == "self._awaiting":
            k, kt = fn.ex(s.targets[0].slice, env, L)
            if kt != NAT:
                raise Unsupported("del _awaiting[...] key")
            L.append(f"awaitingDel {paren(k)}")
            return True
        return False

    def with_hook(fn, s, env, L):
        if not isinstance(s, ast.AsyncWith) or len(s.items) != 1 or s.items[0].optional_vars is not None or not isinstance(s.items[0].context_expr, ast.Call):
            return None
        c = s.items[0].context_expr
        f = ast.unparse(c.func)
        if f == "self._send_semaphore" and not c.args and len(c.keywords) == 1 and c.keywords[0].arg == "priority":
            p_, pt = fn.ex(c.keywords[0].value, env, L)
            L.append(f"semAcquire {paren(fn.coerce(p_, pt, INT))}")
            return ("wrap", ["semRelease"])
        if f == "asyncio_timeout" and len(c.args) == 1 and not c.keywords and len(s.body) == 1 and isinstance(s.body[0], ast.Return) \
                and isinstance(s.body[0].value, ast.Await) and isinstance(s.body[0].value.value, ast.Name):
            call = ast.Call(func=ast.Name(id="__await_timeout__", ctx=ast.Load()), args=[s.body[0].value.value, c.args[0]], keywords=[])
            new = ast.Return(value=call)
            ast.copy_location(new, s)
            ast.fix_missing_locations(new)
            return ("rewrite", [new])
        return None

    return ModSpec(
        module="bellows.ezsp.protocol",
        ns="BV.Src.Cmd",
        imports=["BV.Py.CmdEnv"],
        opens=["BV.Py"],
        unions={},
        fns=[FnSpec("ProtocolHandler._get_command_priority", params={"name": STR}, ret=INT, lean_name="get_command_priority"),
             FnSpec("ProtocolHandler._ezsp_frame", params={"name": STR, "args": VALS, "kwargs": KWVALS}, ret=BYTES, lean_name="ezsp_frame"),
             FnSpec("ProtocolHandler.command", params={"name": STR, "args": VALS, "kwargs": KWVALS}, ret=VALS, allow_async=True,
                    lean_name="command")],
        state=st,
        ext_expr=ext,
        stmt_hook=stmt_hook,
        with_hook=with_hook,
    )


def uart_reset_spec() -> ModSpec:
    """Gateway.reset / Gateway.wait_for_startup_reset: coroutines over the synchronous handlers generated by uart_spec; what reaches
    the gateway while they are suspended goes through those generated handlers (BV/Py/UartEnv.lean)"""
    base = uart_spec()
    FUT = ("ref", "GFut")

    def ext(fn, node, env, L):
        if not isinstance(node, ast.Call):
            return None
        src = ast.unparse(node)
        if src in ("asyncio.get_running_loop().create_future()", "asyncio.get_event_loop().create_future()"):
            tmp = fn.tr.fresh("f")
            L.append(f"let {tmp} ← gNewFut")
            return tmp, FUT
        if src == "self._reset_future.add_done_callback(self._reset_cleanup)":
            tmp = fn.tr.fresh("s")
            L.append(f"let {tmp} ← PyM.get")
            L.append(f"gArmCleanup {tmp}.reset_future")
            return "()", UNIT
        f = ast.unparse(node.func)
        if f in ("__await__", "__await_timeout__"):
            a, at = fn.ex(node.args[0], env, L)
            if at != opt(FUT):
                raise Unsupported(f"await of {at}")
            if f == "__await__":
                t_ = "none"
            else:
                b, bt = fn.ex(node.args[1], env, L)
                if bt != NAT:
                    raise Unsupported(f"timeout of type {bt}")
                t_ = f"(some {paren(b)})"
            tmp = fn.tr.fresh("v")
            L.append(f"let {tmp} ← gAwait {paren(a)} {t_}")
            return tmp, BOOL
        return None

    def with_hook(fn, s, env, L):
        if not isinstance(s, ast.AsyncWith) or len(s.items) != 1 or s.items[0].optional_vars is not None or not isinstance(s.items[0].context_expr, ast.Call):
            return None
        c = s.items[0].context_expr
        if ast.unparse(c.func) == "asyncio_timeout" and len(c.args) == 1 and not c.keywords and len(s.body) == 1 and isinstance(s.body[0], ast.Return) \
                and isinstance(s.body[0].value, ast.Await) and not isinstance(s.body[0].value.value, ast.Call):
            call = ast.Call(func=ast.Name(id="__await_timeout__", ctx=ast.Load()), args=[s.body[0].value.value, c.args[0]], keywords=[])
            new_ = ast.Return(value=call)
            ast.copy_location(new_, s)
            ast.fix_missing_locations(new_)
            return ("rewrite", [new_])
        return None

    return ModSpec(
        module="bellows.uart",
        ns="BV.Src.UartReset",
        imports=["BV.Py.UartEnv"],
        opens=["BV.Py", "BV.Src.Uart"],
        unions={},
        fns=[FnSpec("Gateway.wait_for_startup_reset", ret=UNIT, allow_async=True),
             FnSpec("Gateway.reset", ret=BOOL, allow_async=True)],
        state=base.state,
        exc_ctor=base.exc_ctor,
        value_methods=base.value_methods,
        ext_expr=ext,
        with_hook=with_hook,
    )


def ezsp_rx_spec() -> ModSpec:
    """EZSP.frame_received (bellows/ezsp/__init__.py): the guard around the version handler's `__call__` (generated: BV/Gen/SrcProto.lean)"""
    def call_protocol(fn, node, env, L):
        if len(node.args) != 1 or node.keywords:
            raise Unsupported("self._protocol(...) arguments")
        a, at = fn.ex(node.args[0], env, L)
        if at != BYTES:
            raise Unsupported("self._protocol of " + str(at))
        L.append(f"BV.Src.Proto.handler_call {paren(a)}")
        return "()", UNIT

    st = StateSpec(
        pyclass="EZSP", lean="Proto",
        fields={"_protocol": ("protocol", opt(("lean", "Unit")))},
        calls={"self._protocol": call_protocol},
    )
    return ModSpec(
        module="bellows.ezsp",
        ns="BV.Src.EzspRx",
        imports=["BV.Gen.SrcProto"],
        opens=["BV.Py"],
        unions={},
        fns=[FnSpec("EZSP.frame_received", params={"data": BYTES}, ret=UNIT, lean_name="frame_received")],
        state=st,
    )


MODULES = {"Ash": ash_spec, "Uart": uart_spec, "Mcast": multicast_spec, "Wd": watchdog_spec,
           "HdrV4": hdr_v4_spec, "HdrV5": hdr_v5_spec, "HdrV8": hdr_v8_spec, "Proto": protocol_spec, "EzspRx": ezsp_rx_spec, "Cmd": command_spec, "UartReset": uart_reset_spec}


def translate_module(spec: ModSpec):
    tr = Tr(spec)
    text = tr.translate_all()
    return text, tr.report


if __name__ == "__main__":
    import sys

    text, rep = translate_module(ash_spec())
    sys.stdout.write(text)
    sys.stderr.write(repr(rep) + "\n")
