"""Specification-conforming NCP end of the ASH link (UG101): receiver accepting exactly the next
frame number, ACK/NAK rules, transmit window W in 1..3 with consecutive numbering and go-back-N
retransmission on NAK or timeout.  Independent of bellows (uses harness.ashlib spec codec)."""
from harness import ashlib


class Ncp:
    def __init__(self, window=1):
        self.W = window
        self.rx_seq = 0  # next frame number expected from the host
        self.up = []  # payloads handed to the NCP's upper layer, in order
        self.base = 0  # absolute index of the oldest unacknowledged own frame
        self.next = 0  # absolute index of the next own frame to transmit
        self.sub = []  # submitted payloads (absolute index = position)
        self.out = []  # wire frames produced (bytes), drained by the channel
        self.reject_mode = False

    # ---- upper layer submits a payload towards the host
    def submit(self, payload: bytes):
        self.sub.append(payload)
        self.pump()

    def pump(self):
        while self.next < len(self.sub) and self.next - self.base < self.W:
            self._tx(self.next, 0)
            self.next += 1

    def _tx(self, idx, retx):
        self.out.append(ashlib.spec_wire("D", frm=idx % 8, retx=retx, ack=self.rx_seq, payload=self.sub[idx]))

    def retransmit(self):
        """timeout or NAK: go back to the oldest unacknowledged frame"""
        for i in range(self.base, self.next):
            self._tx(i, 1)

    def unacked(self):
        return self.next - self.base

    def _ack(self, ack_num):
        # ackNum acknowledges every own frame numbered before it, if it lies within the window
        d = (ack_num - self.base % 8) % 8
        if 0 < d <= self.next - self.base:
            self.base += d
            self.pump()

    # ---- a frame arrives from the host (bytes as written); garbled input is answered with a NAK
    def receive(self, wire: bytes):
        f = ashlib.spec_decode(wire)
        if f is None:
            if not self.reject_mode:
                self.reject_mode = True
                self.out.append(ashlib.spec_wire("N", ack=self.rx_seq))
            return
        k = f[0]
        if k == "D":
            _, frm, retx, ack, payload = f
            self._ack(ack)
            if frm == self.rx_seq:
                self.reject_mode = False
                self.rx_seq = (self.rx_seq + 1) % 8
                self.up.append(payload)
                self.out.append(ashlib.spec_wire("A", ack=self.rx_seq))
            elif retx:
                self.out.append(ashlib.spec_wire("A", ack=self.rx_seq))
            else:
                if not self.reject_mode:
                    self.reject_mode = True
                    self.out.append(ashlib.spec_wire("N", ack=self.rx_seq))
        elif k == "A":
            self._ack(f[1])
        elif k == "N":
            self._ack(f[1])
            self.retransmit()
        # RST is handled by the C09/C11 simulator, not here
